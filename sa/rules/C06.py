"""C06 -- enantiomer() is the mirror image.

Slot-coverage: the implementation chain of ``enantiomer`` resolved for class K
must write ``invert()``-ed descriptors, read from self, into every
descriptor-bearing slot of K (all three roles of the change dictionaries),
must write nothing else into the copy, and must not write to ``self``.
The ``invert()`` / ``inversion`` obligations of C04 are re-checked here because
the property depends on them.
"""
from __future__ import annotations

import ast
from ..core import utext

from ..absint import In, Interp, Obj
from ..core import (DESCRIPTOR_CLASSES, SHORT, AnalysisError, DefUse, Program,
                    call_name, norm)
from ..report import Result
from . import C04

LEVEL_TEXT = (
    "static slot-coverage analysis of the resolved enantiomer() chain per "
    "class (every descriptor-bearing slot receives invert()-ed values read "
    "from the same slot of self; nothing else is written; self is not "
    "written) plus the exhaustive invert()/inversion table obligations of "
    "C04. Whether g == g.enantiomer() exactly for achiral/meso structures is "
    "a behavioural fact that is not decided.")

SETTERS = {
    "set_atom_stereo": "_atom_stereo",
    "set_bond_stereo": "_bond_stereo",
    "set_atom_stereo_change": "_atom_stereo_change",
    "set_bond_stereo_change": "_bond_stereo_change",
}
READS = {
    "_atom_stereo": ("get_atom_stereo", "_atom_stereo", "atom_stereo"),
    "_bond_stereo": ("get_bond_stereo", "_bond_stereo", "bond_stereo"),
    "_atom_stereo_change": ("get_atom_stereo_change", "_atom_stereo_change",
                            "atom_stereo_changes"),
    "_bond_stereo_change": ("get_bond_stereo_change", "_bond_stereo_change",
                            "bond_stereo_changes"),
}
STEREO_SLOTS = tuple(READS)


def chain_of(prog: Program, K: str, meth: str):
    out = []
    cur = prog.resolve_method(K, meth)
    while cur is not None:
        out.append(cur)
        nxt = None
        for node in ast.walk(cur.node):
            if isinstance(node, ast.Call) and isinstance(
                    node.func, ast.Attribute) and node.func.attr == meth \
                    and isinstance(node.func.value, ast.Call) and call_name(
                    node.func.value) == "super":
                nxt = prog.resolve_method(K, meth, after=cur.cls.name)
        cur = nxt
    return out


def writes_in(fi, selfn: str):
    """(slot, value-expression, node, receiver text) for descriptor writes in
    one function: setter calls and direct subscript stores."""
    out = []
    for node in ast.walk(fi.node):
        if isinstance(node, ast.Call) and isinstance(node.func, ast.Attribute) \
                and node.func.attr in SETTERS:
            vals = list(node.args) + [k.value for k in node.keywords]
            out.append((SETTERS[node.func.attr], vals, node,
                        norm(node.func.value)))
        elif isinstance(node, ast.Assign):
            for t in node.targets:
                if isinstance(t, ast.Subscript) and isinstance(
                        t.value, ast.Attribute) and t.value.attr in STEREO_SLOTS:
                    out.append((t.value.attr, [node.value], node,
                                norm(t.value.value)))
                elif isinstance(t, ast.Attribute) and t.attr in STEREO_SLOTS:
                    out.append((t.attr, [node.value], node, norm(t.value)))
    return out


def _closure_for(prog: Program, K: str, start, via_calls):
    """The functions reached for receiver class K from the nodes `via_calls`
    through `self.m(..)` / `super().m(..)` calls (virtual dispatch resolved
    for K), transitively."""
    seen, todo = [], list(via_calls)
    while todo and len(seen) < 40:
        owner, node = todo.pop()
        selfn = owner.params()[0] if owner.params() else "self"
        for c in ast.walk(node):
            if not (isinstance(c, ast.Call) and isinstance(
                    c.func, ast.Attribute)):
                continue
            tgt = None
            if norm(c.func.value) == selfn:
                tgt = prog.resolve_method(K, c.func.attr)
            elif isinstance(c.func.value, ast.Call) and call_name(
                    c.func.value) == "super" and owner.cls is not None:
                tgt = prog.resolve_method(K, c.func.attr,
                                          after=owner.cls.name)
            if tgt is not None and tgt not in seen and tgt is not start:
                seen.append(tgt)
                todo.append((tgt, tgt.node))
    return seen


def check_fast_path(prog: Program, res: Result) -> None:
    """R-ENANT-FASTPATH: an early `return` of enantiomer() in front of the
    inversion, guarded by a look at some descriptor slots, is only right for
    a class whose inversion writes no other slot: the guard cannot know what
    a slot it never reads contains.  Both sides are resolved per class
    (hooks overridden in a subclass change the answer)."""
    res.rule("R-ENANT-FASTPATH", "a guarded early return of enantiomer() in "
             "front of the inversion reads (through the hooks it calls, "
             "resolved for the class) every descriptor slot the inversion of "
             "that class writes")
    n = 0
    for K in ("StereoMolGraph", "StereoCondensedReactionGraph"):
        chain = chain_of(prog, K, "enantiomer")
        for fi in chain:
            selfn = fi.params()[0]
            for st in fi.node.body:
                if not (isinstance(st, ast.If) and any(isinstance(
                        x, ast.Return) for b in st.body for x in ast.walk(b))):
                    continue
                after = fi.node.body[fi.node.body.index(st) + 1:]
                if not after:
                    continue
                # slots the guard looks at
                g_funcs = _closure_for(prog, K, fi, [(fi, st.test)])
                G = set()
                for owner, node in [(fi, st.test)] + [(g, g.node)
                                                      for g in g_funcs]:
                    sn = owner.params()[0] if owner.params() else "self"
                    for a in ast.walk(node):
                        if isinstance(a, ast.Attribute) and norm(
                                a.value) == sn:
                            G |= {s_ for s_, names in READS.items()
                                  if a.attr in names}
                if not G:
                    continue        # not a look at descriptors
                # slots the skipped part writes (hooks resolved for K)
                class _Rest:        # the statements behind the guard
                    pass
                W = set()
                mod = ast.Module(body=list(after), type_ignores=[])
                w_funcs = _closure_for(prog, K, fi, [(fi, mod)])
                from ..core import FuncInfo
                for owner, node in [(fi, mod)] + [(w, w.node)
                                                  for w in w_funcs]:
                    sn = owner.params()[0] if owner.params() else "self"
                    tmp = FuncInfo(owner.qual, owner.module, node, owner.cls) \
                        if node is mod else owner
                    for slot, _v, _n, recv in writes_in(tmp, sn):
                        if recv != sn:
                            W.add(slot)
                # a later function of the chain (the subclass part that runs
                # after super().enantiomer() returned) still runs: its
                # writes are not skipped
                later = chain[:chain.index(fi)]
                for lf in later:
                    for slot, _v, _n, recv in writes_in(lf, lf.params()[0]):
                        W.discard(slot) if recv != lf.params()[0] else None
                n += 1
                inst = f"{SHORT[K]}.enantiomer: fast path `{norm(st.test, 60)}`"
                missing = sorted(W - G)
                if not missing:
                    res.ok("R-ENANT-FASTPATH", inst, fi.loc(st),
                           f"reads {sorted(G)}, skips writes of {sorted(W)}")
                else:
                    res.bad("R-ENANT-FASTPATH",
                            f"{K}.enantiomer fast path {norm(st.test, 50)}",
                            fi.loc(st), f"{inst} in {fi.short} returns the "
                            f"plain copy after looking at {sorted(G)} only; "
                            f"for a {K} the skipped inversion also writes "
                            f"{missing}: a graph whose only chiral "
                            "descriptors sit there is returned unmirrored",
                            instance=inst, context=["<decided>"])
    if n == 0:
        res.ok("R-ENANT-FASTPATH", "enantiomer() has no guarded early return",
               chain_of(prog, "StereoMolGraph", "enantiomer")[0].loc())


def run(prog: Program, res: Result, tier: str) -> None:
    check_fast_path(prog, res)
    res.rule("R-SLOT-COVER[enantiomer]", "for class K, every descriptor-"
             "bearing slot of K is written in the enantiomer() chain with a "
             "value that is data-dependent on a .invert() call and on a read "
             "of the same slot of self")
    res.rule("R-ENANT-ONLY-STEREO", "enantiomer() calls no structural "
             "mutator (atoms, bonds, attributes) on the copy, and the copy "
             "comes from self.copy()")
    res.rule("R-DERIVE-PURE", "enantiomer() has no write effect on self")
    res.trusted += ["setter -> slot table (set_atom_stereo -> _atom_stereo, "
                    "...)", "sa/absint.py effect transfer functions"]
    from .common import check_setter_once
    check_setter_once(prog, res, chain_of(
        prog, "StereoCondensedReactionGraph", "enantiomer"), "enantiomer()")
    for K in ("StereoMolGraph", "StereoCondensedReactionGraph"):
        chain = chain_of(prog, K, "enantiomer")
        if not chain:
            raise AnalysisError(f"{K}.enantiomer does not resolve")
        slots = [s for s in prog.all_slots(K) if s in STEREO_SLOTS]
        covered: dict[str, str] = {}
        problems: dict[str, str] = {}
        struct_calls = []
        from ..core import unroll_literal_loops, FuncInfo
        chain = [FuncInfo(f.qual, f.module, unroll_literal_loops(f.node), f.cls)
                 for f in chain]
        for fi in chain:
            selfn = fi.params()[0]
            du = DefUse(fi.node)
            # entries filtered out before a REPLACING setter are lost
            for node in ast.walk(fi.node):
                if isinstance(node, ast.DictComp) and any(
                        "invert" in norm(v) for v in (node.value,)):
                    for g in node.generators:
                        for c in g.ifs:
                            t = norm(c)
                            if ".parity" in t or "isinstance" in t:
                                problems["_atom_stereo_change"] = problems[
                                    "_bond_stereo_change"] = (
                                    f"`if {t}` drops entries of a change "
                                    "dictionary before set_*_stereo_change "
                                    "replaces the whole dictionary: achiral / "
                                    "unspecified descriptors of a mixed "
                                    "change are lost")
            for slot, vals, node, recv in writes_in(fi, selfn):
                if recv == selfn:
                    continue        # reported by R-DERIVE-PURE
                dep_nodes = [d for v in vals for d in du.dep_nodes(v)]
                has_invert = any(
                    isinstance(n, ast.Call) and isinstance(
                        n.func, ast.Attribute) and n.func.attr == "invert"
                    for d in dep_nodes for n in ast.walk(d))
                reads = any(
                    isinstance(n, ast.Attribute) and n.attr in READS[slot]
                    and norm(n.value) == selfn
                    for d in dep_nodes for n in ast.walk(d))
                # a change setter called with explicit role keywords: every
                # one of the three roles must receive an inverted descriptor
                if slot.endswith("_change") and isinstance(node, ast.Call) \
                        and any(k.arg in ("broken", "formed", "fleeting")
                                for k in node.keywords):
                    roles = {k.arg: k.value for k in node.keywords if k.arg}
                    starred = any(k.arg is None for k in node.keywords)
                    for role in ("broken", "formed", "fleeting"):
                        if role not in roles:
                            if not starred:
                                problems[slot] = (
                                    f"`{norm(node, 90)}` does not carry the "
                                    f"{role.upper()} descriptor over to the "
                                    "enantiomer")
                            continue
                        inv = any(
                            isinstance(n, ast.Call) and isinstance(
                                n.func, ast.Attribute)
                            and n.func.attr == "invert"
                            for d in du.dep_nodes(roles[role])
                            for n in ast.walk(d))
                        if not inv:
                            problems[slot] = (
                                f"`{norm(node, 90)}` passes the "
                                f"{role.upper()} descriptor "
                                f"`{norm(roles[role], 50)}` without invert(): "
                                "a chiral descriptor in that role is not "
                                "mirrored")
                if has_invert and reads:
                    # conditional inversion of only some descriptor classes?
                    cond = [a for a in _enclosing_ifs(node, fi.node)
                            if "isinstance" in norm(a.test)]
                    if cond:
                        problems[slot] = (f"inversion of {slot} is restricted "
                                          f"by `{norm(cond[0].test)}`")
                    else:
                        covered[slot] = f"{fi.short}: {norm(node, 90)}"
                elif slot not in covered:
                    problems.setdefault(slot, (
                        f"`{norm(node, 90)}` in {fi.short} writes {slot} "
                        f"without {'invert()' if not has_invert else 'reading self.' + slot}"))
            for node in ast.walk(fi.node):
                if isinstance(node, ast.Call) and isinstance(
                        node.func, ast.Attribute) and norm(
                        node.func.value) != selfn and node.func.attr in (
                        "add_atom", "remove_atom", "add_bond", "remove_bond",
                        "set_atom_attribute", "set_bond_attribute",
                        "delete_atom_attribute", "delete_bond_attribute",
                        "add_formed_bond", "add_broken_bond",
                        "add_fleeting_bond", "relabel_atoms",
                        "delete_atom_stereo", "delete_bond_stereo",
                        "delete_atom_stereo_change",
                        "delete_bond_stereo_change"):
                    struct_calls.append((fi, node))
        for s in slots:
            inst = f"{SHORT[K]}.enantiomer inverts {s}"
            if s in covered and s not in problems:
                res.ok("R-SLOT-COVER[enantiomer]", inst, chain[0].loc(),
                       covered[s])
            elif s in covered:
                res.bad("R-SLOT-COVER[enantiomer]",
                        f"{K}.enantiomer: {s} partial", chain[0].loc(),
                        f"{inst}: {problems[s]}", instance=inst)
            else:
                why = problems.get(s, "no write of inverted descriptors into "
                                   "this slot anywhere in the chain "
                                   + " -> ".join(f.short for f in chain))
                res.bad("R-SLOT-COVER[enantiomer]", f"{K}.enantiomer: {s}",
                        chain[0].loc(), f"{inst}: {why}", instance=inst)
        # all three roles of a change dictionary
        for s in slots:
            if not s.endswith("_change") or s not in covered:
                continue
            for fi in chain:
                txt = utext(fi.node)
                named = {r for r in ("FORMED", "BROKEN", "FLEETING")
                         if f"Change.{r}" in txt}
                named |= {r.upper() for r in ("formed", "broken", "fleeting")
                          if f"{r}=" in txt or f'"{r}"' in txt or f"'{r}'" in txt}
                if named and named != {"FORMED", "BROKEN", "FLEETING"} and \
                        SETTERS_INV[s] in txt:
                    res.bad("R-SLOT-COVER[enantiomer]",
                            f"{K}.enantiomer: {s} roles", fi.loc(),
                            f"{SHORT[K]}.enantiomer handles only the roles "
                            f"{sorted(named)} of {s}",
                            instance=f"{SHORT[K]}.enantiomer roles of {s}")
        inst = f"{SHORT[K]}.enantiomer writes descriptors only"
        if struct_calls:
            fi, node = struct_calls[0]
            res.bad("R-ENANT-ONLY-STEREO", f"{fi.short}: {norm(node, 90)}",
                    fi.loc(node), f"{inst}: structural edit "
                    f"`{norm(node, 90)}`", instance=inst)
        else:
            res.ok("R-ENANT-ONLY-STEREO", inst, chain[0].loc())
        base = chain[-1]
        src = [n for n in ast.walk(base.node) if isinstance(n, ast.Call)
               and norm(n.func) == f"{base.params()[0]}.copy"]
        inst = f"{SHORT[K]}.enantiomer starts from self.copy()"
        if src:
            res.ok("R-ENANT-ONLY-STEREO", inst, base.loc())
        else:
            res.bad("R-ENANT-ONLY-STEREO", f"{base.short}: no self.copy()",
                    base.loc(), f"{inst}: the result is not derived from "
                    "self.copy()", instance=inst)
        # effects on self
        I = Interp(prog)
        out = I.call_method(K, "enantiomer", I.input(K, "self"))
        inst = f"{SHORT[K]}.enantiomer does not modify self"
        if isinstance(out, In):
            res.bad("R-DERIVE-PURE", f"{K}.enantiomer returns self",
                    chain[0].loc(), f"{inst}: returns its input",
                    instance=inst)
        elif I.events:
            ev = I.events[0]
            res.bad("R-DERIVE-PURE", f"{ev.func}: {ev.stmt}", ev.where,
                    f"{inst}: {ev.kind} on self.{ev.slot} at `{ev.stmt}`",
                    instance=inst)
        else:
            res.ok("R-DERIVE-PURE", inst, chain[0].loc())
    # invert()/inversion obligations the property rests on
    tmp = Result(res.prop)
    C04.check_tables(prog, tmp)
    res.rules["T-INV"] = tmp.rules["T-INV"]
    res.obligations += [o for o in tmp.obligations if o.rule == "T-INV"]
    for f in tmp.findings:
        if f.rule == "T-INV":
            res.findings.append(f)
    res.errors += tmp.errors
    for name in DESCRIPTOR_CLASSES:
        fi = prog.resolve_method(name, "invert")
        if fi is None:
            raise AnalysisError(f"{name}.invert does not resolve")
        C04.check_invert(prog, res, fi, name)
    res.need("R-SLOT-COVER[enantiomer]",
             res.count("R-SLOT-COVER[enantiomer]"), 6, "slot obligations")


SETTERS_INV = {v: k for k, v in SETTERS.items()}


def _enclosing_ifs(node: ast.AST, func: ast.AST):
    from ..core import ancestors
    out = []
    for a in ancestors(node):
        if a is func:
            break
        if isinstance(a, ast.If):
            out.append(a)
    return out
