"""Helpers shared by several property modules."""
from __future__ import annotations

import ast
from ..core import utext

from ..core import DefUse, Program, dotted, ancestors


def _is_defaultdict_call(v: ast.AST) -> bool:
    if isinstance(v, ast.Call):
        f = v.func
        if isinstance(f, ast.Subscript):
            f = f.value
        d = dotted(f)
        if d and d.split(".")[-1] == "defaultdict":
            return True
    return False


def autoviv_sites(prog: Program, cls: str) -> dict[str, list[tuple[str, str]]]:
    """slot -> [(site text, loc)] of stores ``X.<slot> = <auto-creating
    container>`` in the classes of cls's MRO; local names are followed through
    their definitions inside the storing function."""
    out: dict[str, list[tuple[str, str]]] = {}
    slots = set(prog.all_slots(cls))
    for c in prog.mro(cls):
        ci = prog.classes[c]
        for fi in ci.methods.values():
            du = None
            for node in ast.walk(fi.node):
                if not isinstance(node, ast.Assign):
                    continue
                for t in node.targets:
                    if isinstance(t, ast.Attribute) and t.attr in slots:
                        if du is None:
                            du = DefUse(fi.node)
                        for d in du.dep_nodes(node.value):
                            hit = [x for x in ast.walk(d)
                                   if _is_defaultdict_call(x)]
                            if hit:
                                out.setdefault(t.attr, []).append(
                                    (f"{fi.short}: {utext(node)[:100]}",
                                     fi.loc(node)))
                                break
    return out


def autoviv_slots(prog: Program, cls: str) -> set[str]:
    return set(autoviv_sites(prog, cls))


def merge_rules(res, tmp, rules) -> None:
    """Copies the obligations / findings / errors of the named rules from a
    scratch Result (another property's checker run on the same program)."""
    for r in rules:
        if r in tmp.rules:
            res.rules[r] = tmp.rules[r]
    res.obligations += [o for o in tmp.obligations if o.rule in rules]
    for f in tmp.findings:
        if f.rule in rules and f.ident() not in {
                x.ident() for x in res.findings}:
            res.findings.append(f)
    for e in tmp.errors:
        if any(e.startswith(r) or f" {r} " in e or e.startswith(f"{r}:")
               for r in rules) and e not in res.errors:
            res.errors.append(e)
