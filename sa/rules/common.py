"""Helpers shared by several property modules."""
from __future__ import annotations

import ast
from ..core import utext

from ..core import DefUse, Program, dotted, ancestors


def _is_defaultdict_call(v: ast.AST) -> bool:
    if isinstance(v, ast.Call):
        f = v.func
        if isinstance(f, ast.Subscript):
            f = f.value
        d = dotted(f)
        if d and d.split(".")[-1] == "defaultdict":
            return True
    return False


def autoviv_sites(prog: Program, cls: str) -> dict[str, list[tuple[str, str]]]:
    """slot -> [(site text, loc)] of stores ``X.<slot> = <auto-creating
    container>`` in the classes of cls's MRO; local names are followed through
    their definitions inside the storing function."""
    out: dict[str, list[tuple[str, str]]] = {}
    slots = set(prog.all_slots(cls))
    for c in prog.mro(cls):
        ci = prog.classes[c]
        for fi in ci.methods.values():
            du = None
            for node in ast.walk(fi.node):
                if not isinstance(node, ast.Assign):
                    continue
                for t in node.targets:
                    if isinstance(t, ast.Attribute) and t.attr in slots:
                        if du is None:
                            du = DefUse(fi.node)
                        for d in du.dep_nodes(node.value):
                            hit = [x for x in ast.walk(d)
                                   if _is_defaultdict_call(x)]
                            if hit:
                                out.setdefault(t.attr, []).append(
                                    (f"{fi.short}: {utext(node)[:100]}",
                                     fi.loc(node)))
                                break
    return out


def autoviv_slots(prog: Program, cls: str) -> set[str]:
    return set(autoviv_sites(prog, cls))


def merge_rules(res, tmp, rules) -> None:
    """Copies the obligations / findings / errors of the named rules from a
    scratch Result (another property's checker run on the same program)."""
    for r in rules:
        if r in tmp.rules:
            res.rules[r] = tmp.rules[r]
    res.obligations += [o for o in tmp.obligations if o.rule in rules]
    for f in tmp.findings:
        if f.rule in rules and f.ident() not in {
                x.ident() for x in res.findings}:
            res.findings.append(f)
    for e in tmp.errors:
        if any(e.startswith(r) or f" {r} " in e or e.startswith(f"{r}:")
               for r in rules) and e not in res.errors:
            res.errors.append(e)


CHANGE_SETTERS = ("set_atom_stereo_change", "set_bond_stereo_change")
ROLE_KEYS = ("formed", "broken", "fleeting")


def _generator_per_role(fi, call, key_names):
    """`for name, stereo in gen(..): setter(**{name: ..})` where `gen` is a
    local generator that yields `(role, descriptor)` pairs from inside a
    `for role, stereo in <mapping>.items()` loop: the same per-role call, the
    role loop moved into the generator.  Returns the role loop or None."""
    for a in ancestors(call):
        if not (isinstance(a, ast.For) and isinstance(a.target, ast.Tuple)
                and a.target.elts and isinstance(a.target.elts[0], ast.Name)
                and a.target.elts[0].id in key_names):
            continue
        it = a.iter
        if not (isinstance(it, ast.Call) and isinstance(it.func, ast.Name)):
            return None
        gens = [d for d in ast.walk(fi.node) if isinstance(d, ast.FunctionDef)
                and d.name == it.func.id and d is not fi.node]
        if len(gens) != 1:
            return None
        for y in ast.walk(gens[0]):
            if not (isinstance(y, ast.Yield) and isinstance(
                    y.value, ast.Tuple) and y.value.elts):
                continue
            first = {x.id for x in ast.walk(y.value.elts[0])
                     if isinstance(x, ast.Name)}
            for l in ancestors(y):
                if isinstance(l, ast.For) and isinstance(
                        l.iter, ast.Call) and isinstance(
                        l.iter.func, ast.Attribute) and \
                        l.iter.func.attr == "items" and isinstance(
                        l.target, ast.Tuple) and len(l.target.elts) == 2 \
                        and isinstance(l.target.elts[0], ast.Name) and \
                        l.target.elts[0].id in first:
                    return l
        return None
    return None


def check_setter_once(prog: Program, res, functions, label: str) -> None:
    """R-SETTER-ONCE: set_atom_stereo_change / set_bond_stereo_change replace
    the whole change entry of a centre (every role that is not passed is
    reset).  A call that passes ONE role and sits in a loop over the roles of
    one change dictionary (`for role, stereo in change_dict.items()`) keeps
    only the role visited last."""
    from ..core import norm
    res.rule("R-SETTER-ONCE", "the change setters replace the whole entry of "
             "a centre: they are called once per centre with all its roles, "
             "never once per role inside a loop over the roles of one change "
             "dictionary")
    n = 0
    for fi in functions:
        if fi is None:
            continue
        for call in ast.walk(fi.node):
            if not (isinstance(call, ast.Call) and isinstance(
                    call.func, (ast.Attribute, ast.Name))):
                continue
            fname = call.func.attr if isinstance(
                call.func, ast.Attribute) else call.func.id
            if fname not in CHANGE_SETTERS:
                continue
            n += 1
            inst = f"{fi.short}: {norm(call, 70)} (line {call.lineno})"
            # how many roles does the call pass?
            roles: set[str] | None = set()
            key_names: set[str] = set()
            for k in call.keywords:
                if k.arg in ROLE_KEYS:
                    roles.add(k.arg)
                elif k.arg is None:
                    v = k.value
                    if isinstance(v, ast.Dict) and len(v.keys) == 1 and \
                            v.keys[0] is not None:
                        roles.add("<one>")
                        key_names |= {x.id for x in ast.walk(v.keys[0])
                                      if isinstance(x, ast.Name)}
                    else:
                        roles = None      # a dictionary of several roles
                        break
            if roles is None or len(roles) != 1:
                res.ok("R-SETTER-ONCE", inst, fi.loc(call))
                continue
            # inside a loop over the (role, descriptor) items of a mapping?
            per_role = None
            for a in ancestors(call):
                if isinstance(a, ast.For) and isinstance(
                        a.iter, ast.Call) and isinstance(
                        a.iter.func, ast.Attribute) and \
                        a.iter.func.attr == "items" and isinstance(
                        a.target, ast.Tuple) and len(a.target.elts) == 2:
                    kvar = a.target.elts[0]
                    if isinstance(kvar, ast.Name) and (
                            kvar.id in key_names or "<one>" not in roles):
                        # a single explicit role keyword inside such a loop is
                        # only per-role when the loop variable selects it
                        if "<one>" in roles:
                            per_role = a
                        break
            if per_role is None and "<one>" in roles:
                per_role = _generator_per_role(fi, call, key_names)
            if per_role is not None:
                res.bad("R-SETTER-ONCE", f"{fi.short}: {norm(call, 70)}",
                        fi.loc(call), f"{label}: `{norm(call, 70)}` passes "
                        "one role per call inside `for "
                        f"{norm(per_role.target)} in {norm(per_role.iter)}`: "
                        "the setter replaces the whole change entry, so of a "
                        "centre with several roles (broken + formed, "
                        "fleeting) only the one visited last survives",
                        instance=inst)
            else:
                res.ok("R-SETTER-ONCE", inst, fi.loc(call))
    res.need("R-SETTER-ONCE", n, 1, "change setter calls")
