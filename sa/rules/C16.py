"""C16 -- hash separates elementary differences."""
from __future__ import annotations

from .. import hashrules
from ..core import Program
from ..report import Result

LEVEL_TEXT = (
    "static necessary conditions of separation: the colour update keeps the "
    "atom's own colour; the (reactant, product, TS) axis is hashed in order; "
    "the stereo generator normalises parity and its bond-stereo contribution "
    "must be computed from real colours before the first refined array; the "
    "hash is process independent. Collision-freeness as such is not decided.")


def run(prog: Program, res: Result, tier: str) -> None:
    from .. import memo
    memo.report(prog, res)
    res.trusted += ["axis-provenance classification of sa/hashrules.py"]
    hashrules.check_own_colour(prog, res)
    hashrules.check_aggregation(prog, res)
    hashrules.check_roles(prog, res)
    hashrules.check_parity_norm(prog, res)
    hashrules.check_stereo_latency(prog, res)
    hashrules.check_hash_pure(prog, res)
    hashrules.check_refine_progress(prog, res)
    hashrules.check_final_hash(prog, res)
    # the reaction hash is built from reactant() / product() / _ts()
    from . import C08
    C08.check_bonds(prog, res)
