"""C19 -- rejected edits are atomic.

R-VALIDATE-FIRST: on no path through a mutator (calls to self/super methods
inlined through the receiver's MRO) may a node that can raise execute after a
write to the graph's own state (auto-vivifying lookups count as writes).
R-GUARD-EXISTS: every normal exit of a mutator has validated what the
request names (atoms / bond exist, two distinct atoms, element type, reaction
label type, one centre, not the element attribute).
"""
from __future__ import annotations

import ast
import re

from ..core import GRAPH_CLASSES, SHORT, AnalysisError, Program, norm
from ..effects import Walker
from ..report import Result
from .common import autoviv_slots

LEVEL_TEXT = (
    "static path analysis of every mutator x receiver class: a syntax-"
    "directed walk with validation facts (atom / bond / key membership, "
    "distinctness, element lookup) proves that every may-raise node precedes "
    "the first write on every path, and that each normal exit has validated "
    "what the request names. Exception types and values are not decided.")


def has(prefix: str):
    return lambda facts, _p=prefix: any(f.startswith(_p) for f in facts)


def has_re(pattern: str):
    return lambda facts, _p=re.compile(pattern): any(
        _p.match(f) for f in facts)


def has_all(*fs):
    return lambda facts: all(f in facts for f in fs)


def distinct(a, b):
    return lambda facts: f"distinct:{a}|{b}" in facts


# mutator -> list of (failure kind, predicate over exit facts)
GUARDS = {
    "add_atom": [("non-element atom type", has("elem:"))],
    "remove_atom": [("unknown atom", has_all("atom:atom"))],
    "set_atom_attribute": [("unknown atom", has_all("atom:atom"))],
    "delete_atom_attribute": [
        ("unknown atom", has_all("atom:atom")),
        ("deleting atom_type", lambda f: "ne:attr:'atom_type'" in f)],
    "add_bond": [("unknown atom", has_all("atom:atom1", "atom:atom2")),
                 ("self-bond", distinct("atom1", "atom2"))],
    "remove_bond": [("unknown bond", has_all("bond:atom1|atom2"))],
    "set_bond_attribute": [("unknown bond", has_all("bond:atom1|atom2"))],
    "delete_bond_attribute": [("unknown bond", has_all("bond:atom1|atom2"))],
    "add_formed_bond": [("unknown atom", has_all("atom:atom1", "atom:atom2")),
                        ("self-bond", distinct("atom1", "atom2"))],
    "add_broken_bond": [("unknown atom", has_all("atom:atom1", "atom:atom2")),
                        ("self-bond", distinct("atom1", "atom2"))],
    "add_fleeting_bond": [("unknown atom", has_all("atom:atom1", "atom:atom2")),
                          ("self-bond", distinct("atom1", "atom2"))],
    "set_atom_stereo": [
        ("foreign centre", has_all("atom:atom_stereo.central_atom"))],
    "delete_atom_stereo": [
        ("unknown descriptor", has_all("key:_atom_stereo:atom"))],
    "set_bond_stereo": [
        ("foreign centre", has("bondkey:"))],
    "delete_bond_stereo": [
        ("unknown descriptor", has("key:_bond_stereo:"))],
    "set_atom_stereo_change": [
        ("several centres", has_re(r"eq:len\(\w+\):1$")),
        ("foreign centre", has("atom:"))],
    "set_bond_stereo_change": [
        ("several centres", has_re(r"eq:len\(\w+\):1$")),
        ("foreign centre", has("bondkey:"))],
    "delete_atom_stereo_change": [
        ("unknown change", has("key:_atom_stereo_change:"))],
    "delete_bond_stereo_change": [
        ("unknown change", has("key:_bond_stereo_change:"))],
    # batch mutator: a matrix entry naming an unknown atom / the diagonal
    # must be rejected before the first bond is added
    "bonds_from_bond_order_matrix": [],
}


def label_guards(prog: Program, res: Result) -> None:
    """Reaction-label type and element-attribute guards (shape)."""
    res.rule("R-LABEL-GUARD", "CondensedReactionGraph.add_bond / "
             "set_bond_attribute raise when the `reaction` label is not a "
             "Change; set_atom_attribute validates `atom_type` through the "
             "periodic table before storing")
    for K in ("CondensedReactionGraph", "StereoCondensedReactionGraph"):
        for meth in ("add_bond", "set_bond_attribute"):
            fi = prog.resolve_method(K, meth)
            if fi is None:
                raise AnalysisError(f"{K}.{meth} vanished")
            ok = False
            for node in ast.walk(fi.node):
                if isinstance(node, ast.If) and any(
                        isinstance(b, ast.Raise) for b in node.body):
                    t = norm(node.test, 300)
                    if "isinstance(" in t and "Change" in t and \
                            "reaction" in t and "not isinstance" in t:
                        ok = True
            inst = f"{SHORT[K]}.{meth}: reaction label must be a Change"
            if ok and fi.cls.name in ("CondensedReactionGraph",
                                      "StereoCondensedReactionGraph"):
                res.ok("R-LABEL-GUARD", inst, fi.loc())
            else:
                res.bad("R-LABEL-GUARD", f"{fi.short} reaction label guard",
                        fi.loc(), f"{inst}: no raising `not isinstance(..., "
                        "Change)` guard on the `reaction` label found in "
                        f"{fi.short}", instance=inst)
    for K in GRAPH_CLASSES:
        fi = prog.resolve_method(K, "set_atom_attribute")
        ok = False
        for node in ast.walk(fi.node):
            if isinstance(node, ast.If) and "atom_type" in norm(node.test) \
                    and isinstance(node.test, ast.Compare) and isinstance(
                    node.test.ops[0], ast.Eq):
                body = "\n".join(norm(b, 400) for b in node.body)
                if "PERIODIC_TABLE[" in body:
                    # the store after the if must use the validated value
                    ok = True
        inst = f"{SHORT[K]}.set_atom_attribute: atom_type validated"
        if ok:
            res.ok("R-LABEL-GUARD", inst, fi.loc())
        else:
            res.bad("R-LABEL-GUARD", f"{fi.short} atom_type guard", fi.loc(),
                    f"{inst}: no PERIODIC_TABLE validation under "
                    "`attr == 'atom_type'`", instance=inst)


def run(prog: Program, res: Result, tier: str) -> None:
    res.rule("R-VALIDATE-FIRST", "no may-raise node (raise, assert, lookup / "
             "del / pop with an unvalidated key, PERIODIC_TABLE lookup) "
             "executes after a write to self on any path of a mutator")
    res.rule("R-GUARD-EXISTS", "every normal exit of a mutator has validated "
             "the atoms / bond / centre / element / label the request names")
    res.trusted += [
        "fact rules of sa/effects.py: `k in self.<slot>` guards, raising "
        "lookups in non-auto-creating containers, loop variables drawn from "
        "the graph's own containers, bond => member atoms, neighbour => bond",
        "representation invariants I1/I2 (checked by C09)",
    ]
    n = 0
    for K in GRAPH_CLASSES:
        av = autoviv_slots(prog, K)
        for meth, guards in GUARDS.items():
            fi = prog.resolve_method(K, meth)
            if fi is None:
                continue
            n += 1
            w = Walker(prog, K, av)
            exits = w.run(fi)
            tag = f"{SHORT[K]}.{meth}"
            if w.unmodelled:
                res.error(f"R-VALIDATE-FIRST {tag}: unmodelled constructs "
                          f"{w.unmodelled[:3]}")
            if w.violations:
                for v in w.violations:
                    res.bad("R-VALIDATE-FIRST",
                            f"{v.raise_site} after {v.write_site}", v.where,
                            f"{tag}: `{v.raise_site}` can raise after the "
                            f"graph was already modified by `{v.write_site}`",
                            path=list(v.path), context=list(w.visited),
                            instance=f"{tag}: {v.raise_site}")
            else:
                res.ok("R-VALIDATE-FIRST", tag, fi.loc(),
                       f"{len(w.raise_sites)} may-raise nodes, all before "
                       "the first write")
            normal = [e for e in exits if e.func == fi.short]
            if not normal:
                res.error(f"R-GUARD-EXISTS {tag}: no normal exit found")
                continue
            facts = None
            for e in normal:
                facts = e.facts if facts is None else (facts & e.facts)
            for kind, pred in guards:
                inst = f"{tag}: {kind}"
                if pred(facts):
                    res.ok("R-GUARD-EXISTS", inst, fi.loc())
                else:
                    res.bad("R-GUARD-EXISTS", f"{fi.short}: {kind}", fi.loc(),
                            f"{tag}: a request with {kind} can reach a normal "
                            "exit (no raising validation on every path)",
                            instance=inst, context=list(w.visited))
    label_guards(prog, res)
    res.need("R-VALIDATE-FIRST", n, 50, "mutator x class instances")
    # third clause: lookups about absent atoms / bonds never change any view
    from . import C09
    C09.check_readonly(prog, res)
    C09.check_no_autoviv(prog, res)
