"""C20 -- XYZ text round-trip and distance connectivity (structural part)."""
from __future__ import annotations

import ast
import re

from ..core import AnalysisError, Program, call_name, const, norm
from ..report import Result

LEVEL_TEXT = (
    "static writer/reader format agreement and shape rules: header lines "
    "written = lines skipped; one coordinate format of >= 8 decimals for "
    "x, y, z; comments disabled and result made at least 1-d in the reader; "
    "symbol field wide enough for every element symbol; bonds only from the "
    "strict upper triangle; cut-off table stored symmetrically; strict `<` "
    "against 1.2 x sum of covalent radii; radii table complete; distances "
    "computed from coordinate differences only. Decimal round-trip of floats "
    "and permutation equivariance as values are not decided.")


def run(prog: Program, res: Result, tier: str) -> None:
    res.rule("X-FORMAT", "xyz_str writes exactly as many header lines as "
             "_from_xyz_stream skips; x, y, z share one fixed-point format "
             "with >= 8 decimals; np.loadtxt is called with comments=None "
             "and its result is made at least 1-d (single-atom files); the "
             "symbol field holds the longest element symbol")
    res.rule("X-CONN", "bonds are created from the strict upper triangle "
             "(k=1): no self-bond, each pair once; the cut-off array is "
             "filled symmetrically; the comparison is strict `<`; default "
             "cut-off = 1.2 x sum of covalent radii; the radii table covers "
             "every element of SYMBOLS")
    res.rule("X-DIST", "pairwise_distances uses the coordinates only through "
             "differences of rows, squared, summed over the last axis and "
             "square-rooted (rigid-motion invariant by construction, "
             "symmetric, zero diagonal)")
    geo = prog.cls("Geometry")
    w = geo.methods.get("xyz_str")
    r = geo.methods.get("_from_xyz_stream")
    if not (w and r):
        raise AnalysisError("Geometry.xyz_str / _from_xyz_stream vanished")
    # header lines: statements outside the atom loop that append text ending
    # in a newline to the result, counted per path
    from ..pe import PE
    pe = PE(w.node, {})
    outs = pe.run()
    counts = set()
    for node in [w.node]:
        pass
    # count "\n" contributions before the loop, per branch
    def nl_count(stmts):
        total = 0
        for st in stmts:
            if isinstance(st, ast.For):
                break
            if isinstance(st, ast.If):
                a, b = nl_count(st.body), nl_count(st.orelse)
                if a != b:
                    return -1000
                total += a
            elif isinstance(st, (ast.Assign, ast.AugAssign)):
                total += norm(st.value).count("\\n")
        return total
    header = nl_count(w.node.body)
    skip = None
    load = None
    for n in ast.walk(r.node):
        if isinstance(n, ast.Call) and call_name(n) in ("np.loadtxt",
                                                        "numpy.loadtxt",
                                                        "np.genfromtxt"):
            load = n
    if load is None:
        raise AnalysisError("_from_xyz_stream: np.loadtxt call vanished")
    kw = {k.arg: k.value for k in load.keywords}
    try:
        skip = const(kw["skiprows"]) if "skiprows" in kw else 0
    except Exception:
        skip = None
    inst = f"header lines written ({header}) == skiprows ({skip})"
    if header == skip and header >= 0:
        res.ok("X-FORMAT", inst, w.loc())
    else:
        res.bad("X-FORMAT", f"header {header} vs skiprows {skip}", r.loc(load),
                f"{inst}: the reader skips a different number of lines than "
                "the writer emits", instance=inst)
    # coordinate format
    specs = []
    for n in ast.walk(w.node):
        if isinstance(n, ast.FormattedValue) and n.format_spec is not None \
                and "coords[" in norm(n.value):
            specs.append((norm(n.value), "".join(
                v.value for v in n.format_spec.values
                if isinstance(v, ast.Constant))))
    inst = f"coordinate fields {specs}"
    ok = len(specs) == 3 and len({s for _, s in specs}) == 1 and \
        {v for v, _ in specs} == {"coords[0]", "coords[1]", "coords[2]"}
    if ok:
        m = re.fullmatch(r"[+ ]?\d*\.(\d+)[fFeE]", specs[0][1])
        ok = bool(m) and int(m.group(1)) >= 8
    if ok:
        res.ok("X-FORMAT", inst, w.loc())
    else:
        res.bad("X-FORMAT", f"coordinate format {specs}", w.loc(),
                f"{inst}: x, y, z must share one fixed-point format with at "
                "least 8 decimals", instance=inst)
    # line layout: symbol x y z separated by blanks, one line per atom
    lines = [n for n in ast.walk(w.node) if isinstance(n, ast.JoinedStr)]
    txt = " ".join(norm(n) for n in lines)
    inst = "atom line = symbol, x, y, z, newline"
    if re.search(r"SYMBOLS\[atom_type\]", txt) and txt.count("\\n") >= 1 and \
            "zip(self.atom_types, self.coords)" in ast.unparse(w.node):
        res.ok("X-FORMAT", inst, w.loc())
    else:
        res.unrecognised("X-FORMAT", inst, w.loc(),
                         "per-atom line with SYMBOLS[atom_type] over "
                         "zip(self.atom_types, self.coords) not found")
    # the text reaches the parser as ONE stream: str.splitlines() also splits
    # at \x0b \x0c \x1c-\x1e \x85 \u2028 \u2029, which may occur in a comment
    fx = geo.methods.get("from_xyz")
    inst = "from_xyz hands the text to the parser as a stream"
    if fx is None:
        res.unrecognised("X-FORMAT", inst, r.loc(), "Geometry.from_xyz vanished")
    else:
        ft = ast.unparse(fx.node) + ast.unparse(r.node)
        if ".splitlines(" in ft:
            res.bad("X-FORMAT", "from_xyz splits the text with splitlines()",
                    fx.loc(), f"{inst}: str.splitlines() breaks a comment "
                    "line that contains \\x0b, \\x0c, \\x1c-\\x1e, \\x85, "
                    "\\u2028 or \\u2029 into several lines; skiprows then "
                    "stops inside the comment", instance=inst)
        elif "io.StringIO(" in ft or "StringIO(" in ft:
            res.ok("X-FORMAT", inst, fx.loc())
        else:
            res.unrecognised("X-FORMAT", inst, fx.loc(),
                             "neither io.StringIO nor splitlines found")
    inst = "np.loadtxt(comments=None)"
    if "comments" in kw and norm(kw["comments"]) == "None":
        res.ok("X-FORMAT", inst, r.loc(load))
    else:
        res.bad("X-FORMAT", "loadtxt comments", r.loc(load),
                f"{inst}: with the default '#' a comment line or symbol "
                "containing # truncates the data", instance=inst)
    inst = "reader result is at least 1-d"
    rt = ast.unparse(r.node)
    if ("ndmin" in kw and norm(kw["ndmin"]) in ("1", "2")) or \
            "np.atleast_1d(" in rt:
        res.ok("X-FORMAT", inst, r.loc(load))
    else:
        res.bad("X-FORMAT", "loadtxt ndmin", r.loc(load),
                f"{inst}: for a one-atom file np.loadtxt returns a 0-d "
                "record, iterating data['atom'] raises TypeError: a "
                "single-atom geometry cannot be read back", instance=inst)
    # symbol width
    symbols = const(prog.module_assign("periodic_table", "SYMBOLS"))
    longest = max(len(s) for s in symbols.values())
    m = re.search(r"\('atom', 'U(\d+)'\)", rt)
    inst = f"symbol field width U{m.group(1) if m else '?'} >= {longest}"
    if m and int(m.group(1)) >= longest:
        res.ok("X-FORMAT", inst, r.loc())
    elif m:
        res.bad("X-FORMAT", "symbol width", r.loc(), f"{inst}: too narrow, "
                "two-letter symbols are truncated", instance=inst)
    else:
        res.unrecognised("X-FORMAT", inst, r.loc(), "dtype of the symbol "
                         "column not found")
    inst = "elements restored through PERIODIC_TABLE, columns x, y, z in order"
    cs = [n for n in ast.walk(r.node) if isinstance(n, ast.Call)
          and call_name(n) in ("np.column_stack", "np.stack", "np.array",
                               "np.vstack", "np.transpose")
          and "data[" in norm(n)]
    cols = re.findall(r"data\['([xyz])'\]", norm(cs[0], 300)) if cs else []
    if "PERIODIC_TABLE[atom] for atom in data['atom']" in rt and \
            cols == ["x", "y", "z"]:
        res.ok("X-FORMAT", inst, r.loc())
    elif cols and cols != ["x", "y", "z"]:
        res.bad("X-FORMAT", f"reader columns {cols}", r.loc(cs[0]),
                f"{inst}: coordinates are assembled as {cols}", instance=inst)
    else:
        res.unrecognised("X-FORMAT", inst, r.loc(), "column assembly / "
                         "element lookup not recognised")
    # ---- connectivity -----------------------------------------------------
    fb = prog.resolve_method("MolGraph", "from_atom_types_and_bond_order_matrix")
    t = ast.unparse(fb.node)
    tri = [n for n in ast.walk(fb.node) if isinstance(n, ast.Call)
           and call_name(n) in ("np.triu_indices", "np.triu_indices_from")]
    inst = "bonds from the strict upper triangle (k=1)"
    ok = False
    if tri:
        k = {x.arg: norm(x.value) for x in tri[0].keywords}.get("k")
        if k is None and len(tri[0].args) > 1:
            k = norm(tri[0].args[1])
        ok = k == "1"
    if ok and "for x_id, y_id in zip(x_ids, y_ids)" in t:
        res.ok("X-CONN", inst, fb.loc())
    elif tri:
        res.bad("X-CONN", f"upper triangle k={k}", fb.loc(tri[0]),
                f"{inst}: np.triu_indices is called with k={k} (k=0 creates "
                "self-bonds)", instance=inst)
    else:
        res.unrecognised("X-CONN", inst, fb.loc(), "no np.triu_indices call: "
                         "pair enumeration not recognised")
    inst = "atoms are created as 0..n-1 from enumerate(atom_types)"
    if "for i, atom_type in enumerate(atom_types)" in t and \
            "add_atom(i, atom_type=atom_type)" in t:
        res.ok("X-CONN", inst, fb.loc())
    else:
        res.unrecognised("X-CONN", inst, fb.loc(), "enumerate(atom_types) / "
                         "add_atom(i, ...) not found")
    dfd = prog.cls("_DefaultFuncDict").methods.get("array")
    at = ast.unparse(dfd.node)
    inst = "_DefaultFuncDict.array stores every cut-off symmetrically"
    stores = [(norm(n.targets[0].value.slice), norm(n.targets[0].slice))
              for n in ast.walk(dfd.node) if isinstance(n, ast.Assign)
              and isinstance(n.targets[0], ast.Subscript)
              and isinstance(n.targets[0].value, ast.Subscript)]
    stores += [tuple(norm(e) for e in n.targets[0].slice.elts)
               for n in ast.walk(dfd.node) if isinstance(n, ast.Assign)
               and isinstance(n.targets[0], ast.Subscript)
               and isinstance(n.targets[0].slice, ast.Tuple)
               and len(n.targets[0].slice.elts) == 2]
    sym = all((b, a) in stores for a, b in stores) and bool(stores)
    if sym and "combinations(" in at:
        res.ok("X-CONN", inst, dfd.loc())
    elif stores and not sym:
        res.bad("X-CONN", f"cut-off symmetry {stores}", dfd.loc(),
                f"{inst}: only {stores} is stored; the cut-off matrix is "
                "asymmetric and so is the connectivity", instance=inst)
    elif "np.maximum(" in at or ".T" in at:
        res.ok("X-CONN", inst, dfd.loc(), "symmetrised")
    else:
        res.unrecognised("X-CONN", inst, dfd.loc(), "fill of the cut-off "
                         "array not recognised")
    bfd = prog.cls("BondsFromDistance")
    arr = bfd.methods.get("array")
    cmp_ = [n for n in ast.walk(arr.node) if isinstance(n, ast.Compare)
            and "pairwise_distances" in norm(n.left)]
    inst = "BondsFromDistance.array: distance < cut-off (strict)"
    if cmp_ and isinstance(cmp_[0].ops[0], ast.Lt) and \
            "connectivity_cutoff.array(" in norm(cmp_[0].comparators[0]):
        res.ok("X-CONN", inst, arr.loc(cmp_[0]))
    else:
        res.bad("X-CONN", "array comparison", arr.loc(),
                f"{inst}: found `{norm(cmp_[0]) if cmp_ else 'nothing'}`",
                instance=inst)
    inst = "BondsFromDistance.array: np.where(cond, 1, 0)"
    wh = [n for n in ast.walk(arr.node) if isinstance(n, ast.Call)
          and call_name(n) == "np.where"]
    if wh and [norm(a) for a in wh[0].args[1:]] == ["1", "0"]:
        res.ok("X-CONN", inst, arr.loc())
    elif wh:
        res.bad("X-CONN", "where polarity", arr.loc(wh[0]),
                f"{inst}: np.where is called with "
                f"{[norm(a) for a in wh[0].args[1:]]}", instance=inst)
    else:
        res.unrecognised("X-CONN", inst, arr.loc(), "no np.where")
    call = bfd.methods.get("__call__")
    ct = ast.unparse(call.node)
    inst = "BondsFromDistance.__call__: distance < cut-off (strict)"
    dc_ = [n for n in ast.walk(call.node) if isinstance(n, ast.Compare)
           and norm(n.left) == "distance" and "connectivity_cutoff" in norm(n)]
    if dc_ and isinstance(dc_[0].ops[0], ast.Lt):
        res.ok("X-CONN", inst, call.loc())
    elif dc_:
        res.bad("X-CONN", "__call__ comparison", call.loc(dc_[0]),
                f"{inst}: found `{norm(dc_[0])}`", instance=inst)
    else:
        res.unrecognised("X-CONN", inst, call.loc(), "comparison of the "
                         "distance with the cut-off not found")
    dc = prog.fn("coords:default_connectivity_cutoff")
    dt = ast.unparse(dc.node)
    inst = "default cut-off = sum of covalent radii * 1.2"
    mults = [n for n in ast.walk(dc.node) if isinstance(n, ast.BinOp)
             and isinstance(n.op, ast.Mult)
             and any(isinstance(x, ast.Constant) for x in (n.left, n.right))]
    factor = None
    if mults:
        c = mults[0].left if isinstance(mults[0].left, ast.Constant) else \
            mults[0].right
        factor = c.value
    radii_sum = "sum(" in dt and "COVALENT_RADII[" in dt
    if factor == 1.2 and radii_sum:
        res.ok("X-CONN", inst, dc.loc())
    elif factor is not None and radii_sum:
        res.bad("X-CONN", f"default cut-off factor {factor}", dc.loc(),
                f"{inst}: the factor is {factor}", instance=inst)
    else:
        res.unrecognised("X-CONN", inst, dc.loc(),
                         f"`{norm(dc.node.body[-1])}` not recognised")
    radii = const(prog.module_assign("periodic_table", "_COVALENT_RADII"))
    inst = f"_COVALENT_RADII covers the {len(symbols)} elements of SYMBOLS"
    if set(radii) == set(symbols) and len(symbols) == 118 and all(
            isinstance(v, float) and v > 0 for v in radii.values()):
        res.ok("X-CONN", inst, "src/stereomolgraph/periodic_table.py")
    else:
        res.bad("X-CONN", "radii table", "src/stereomolgraph/periodic_table.py",
                f"{inst}: key sets differ "
                f"({sorted(set(symbols) ^ set(radii))[:5]})", instance=inst)
    # _DefaultFuncDict.__missing__ symmetric fallback
    ms = prog.cls("_DefaultFuncDict").methods.get("__missing__")
    mt = ast.unparse(ms.node)
    inst = "_DefaultFuncDict.__missing__ looks up the swapped pair first"
    if "self.get((key[1], key[0]), None)" in mt and "self.default_func(key)" in mt:
        res.ok("X-CONN", inst, ms.loc())
    else:
        res.unrecognised("X-CONN", inst, ms.loc(), "swapped-pair lookup / "
                         "default function call not found")
    # ---- distances ------------------------------------------------------------
    from ..geo import K as GK, N as GN, Geo
    pd = prog.fn("coords:pairwise_distances")
    c = pd.params()[0]
    g = Geo(prog, pd, {c: GK("P", 1)}, {}).run()
    inst = "pairwise_distances is a scalar function of coordinate differences"
    rk = {k.k for _, k in g.returns}
    if g.taints:
        n0, why = g.taints[0]
        res.bad("X-DIST", f"pairwise_distances: {norm(n0, 80)}", pd.loc(n0),
                f"{inst}: `{norm(n0, 80)}` uses the coordinates other than "
                f"through differences of rows ({why}): the distances (and "
                "the bonds near the cut-off) change under translation",
                instance=inst)
    elif rk == {"S"}:
        res.ok("X-DIST", inst, pd.loc())
    else:
        res.unrecognised("X-DIST", inst, pd.loc(), f"result kind {sorted(rk)}")
    res.trusted += ["numpy semantics of loadtxt / triu_indices / where",
                    "string literals of the writer contain the newlines"]
