"""C20 -- XYZ text round-trip and distance connectivity (structural part)."""
from __future__ import annotations

import ast
from ..core import utext
import re

from ..core import AnalysisError, Program, call_name, const, norm
from ..report import Result

LEVEL_TEXT = (
    "static writer/reader format agreement and shape rules: header lines "
    "written = lines skipped; one coordinate format of >= 8 decimals for "
    "x, y, z; comments disabled and result made at least 1-d in the reader; "
    "symbol field wide enough for every element symbol; bonds only from the "
    "strict upper triangle; cut-off table stored symmetrically; strict `<` "
    "against 1.2 x sum of covalent radii; radii table complete; distances "
    "computed from coordinate differences only. Decimal round-trip of floats "
    "and permutation equivariance as values are not decided.")


COORDS_MOD = "coords"


def _template(w):
    """Symbolic value of the string returned by xyz_str: a list of pieces
    ('lit', text) | ('hole', expr, format spec) | ('alt',) for branches that
    disagree | ('rep', pieces, {loop var: 'atom_type'|'coords'}).  None when
    the builder is not followed."""
    env: dict[str, list] = {}

    class Unknown(Exception):
        pass

    def loop_roles(target, it):
        if not (isinstance(it, ast.Call) and call_name(it) == "zip"
                and [norm(a) for a in it.args] == ["self.atom_types",
                                                   "self.coords"]
                and isinstance(target, ast.Tuple) and len(target.elts) == 2
                and isinstance(target.elts[0], ast.Name)):
            raise Unknown
        c = target.elts[1]
        if isinstance(c, ast.Name):
            return {target.elts[0].id: "atom_type", c.id: "coords"}
        if isinstance(c, (ast.Tuple, ast.List)) and len(c.elts) == 3 and all(
                isinstance(x, ast.Name) for x in c.elts):
            # (x, y, z) unpacked in the loop header
            roles = {target.elts[0].id: "atom_type"}
            for i, x in enumerate(c.elts):
                roles[x.id] = ("coords", i)
            return roles
        raise Unknown

    def val(e, roles=None):
        if isinstance(e, ast.Constant) and isinstance(e.value, str):
            return [("lit", e.value)]
        if isinstance(e, ast.JoinedStr):
            out = []
            for v in e.values:
                if isinstance(v, ast.Constant):
                    out.append(("lit", v.value))
                else:
                    spec = None
                    if v.format_spec is not None:
                        spec = "".join(x.value for x in v.format_spec.values
                                       if isinstance(x, ast.Constant))
                    out.append(("hole", v.value, spec))
            return out
        if isinstance(e, ast.BinOp) and isinstance(e.op, ast.Add):
            return rotate(val(e.left, roles) + val(e.right, roles))
        if isinstance(e, ast.IfExp):
            return merge(val(e.body, roles), val(e.orelse, roles))
        if isinstance(e, ast.Name):
            if e.id in env:
                return list(env[e.id])
            return [("hole", e, None)]
        if isinstance(e, ast.Call) and call_name(e) == "str":
            return [("hole", e, None)]
        if isinstance(e, ast.Call) and isinstance(e.func, ast.Attribute) and \
                e.func.attr == "join" and len(e.args) == 1:
            sep = val(e.func.value)
            arg = e.args[0]
            if isinstance(arg, ast.Name) and arg.id in env:
                inner = env[arg.id]
                if len(inner) == 1 and inner[0][0] == "replist":
                    return [("rep", inner[0][1] + sep, inner[0][2])]
                if len(inner) == 1 and inner[0][0] == "seq":
                    items, rep = inner[0][1], inner[0][2]
                    out = []
                    for i, it_ in enumerate(items):
                        if i:
                            out += sep
                        out += it_
                    if rep is not None:
                        # sep before every repeated element; a trailing
                        # separator literal is rotated in by `rotate`
                        out.append(("rep", sep + rep[0], rep[1], "lead"))
                    return out
                raise Unknown
            if isinstance(arg, (ast.ListComp, ast.GeneratorExp)):
                return [("rep", comp(arg)[0][1] + sep, comp(arg)[0][2])]
            raise Unknown
        if isinstance(e, (ast.ListComp, ast.GeneratorExp)):
            return comp(e)
        if isinstance(e, (ast.List, ast.Tuple)) and not any(
                isinstance(x, ast.Starred) for x in e.elts):
            return [("seq", [val(x, roles) for x in e.elts], None)]
        raise Unknown

    def rotate(pieces):
        """[.., rep(sep + L), lit(sep)] -> [.., lit(sep), rep(L + sep)]: the
        same text for one or more repetitions, in the line-oriented form."""
        out = list(pieces)
        for i in range(len(out) - 1):
            p, q = out[i], out[i + 1]
            if p[0] == "rep" and len(p) == 4 and q[0] == "lit" and p[1] and \
                    p[1][0][0] == "lit" and q[1].startswith(p[1][0][1]):
                sep_txt = p[1][0][1]
                rest = q[1][len(sep_txt):]
                new = [("lit", sep_txt),
                       ("rep", p[1][1:] + [("lit", sep_txt)], p[2])]
                if rest:
                    new.append(("lit", rest))
                return out[:i] + new + out[i + 2:]
        return out

    def comp(c):
        if len(c.generators) != 1 or c.generators[0].ifs:
            raise Unknown
        roles = loop_roles(c.generators[0].target, c.generators[0].iter)
        return [("replist", val(c.elt), roles)]

    def merge(a, b):
        if a == b:
            return a
        na = sum(p[1].count("\n") for p in a if p[0] == "lit")
        nb = sum(p[1].count("\n") for p in b if p[0] == "lit")
        if na == nb and not any(p[0] in ("rep", "replist") for p in a + b):
            # same number of lines on both branches: keep the longer spelling
            return a if len(a) >= len(b) else b
        return [("alt", na, nb)]

    def run(stmts):
        for st in stmts:
            if isinstance(st, ast.Expr) and isinstance(st.value, ast.Constant):
                continue
            if isinstance(st, ast.Assign) and len(st.targets) == 1 and \
                    isinstance(st.targets[0], ast.Name):
                env[st.targets[0].id] = val(st.value)
            elif isinstance(st, ast.AnnAssign) and isinstance(
                    st.target, ast.Name) and st.value is not None:
                env[st.target.id] = val(st.value)
            elif isinstance(st, ast.AugAssign) and isinstance(
                    st.op, ast.Add) and isinstance(st.target, ast.Name):
                env[st.target.id] = env.get(st.target.id, []) + val(st.value)
            elif isinstance(st, ast.Expr) and isinstance(
                    st.value, ast.Call) and isinstance(
                    st.value.func, ast.Attribute) and isinstance(
                    st.value.func.value, ast.Name) and \
                    st.value.func.attr in ("extend", "append") and \
                    len(st.value.args) == 1:
                name = st.value.func.value.id
                cur = env.get(name)
                if not (cur and len(cur) == 1 and cur[0][0] == "seq"
                        and cur[0][2] is None):
                    raise Unknown
                if st.value.func.attr == "append":
                    env[name] = [("seq", cur[0][1] + [val(st.value.args[0])],
                                  None)]
                else:
                    r_ = val(st.value.args[0])
                    if not (len(r_) == 1 and r_[0][0] == "replist"):
                        raise Unknown
                    env[name] = [("seq", cur[0][1], (r_[0][1], r_[0][2]))]
            elif isinstance(st, ast.If):
                before = {k: list(v) for k, v in env.items()}
                r1 = run(st.body)
                e1 = {k: list(v) for k, v in env.items()}
                env.clear(); env.update(before)
                r2 = run(st.orelse)
                if r1 is not None or r2 is not None:
                    raise Unknown
                for k in set(e1) | set(env):
                    pre = before.get(k, [])
                    a, b = e1.get(k, pre), env.get(k, pre)
                    if a[:len(pre)] == pre and b[:len(pre)] == pre:
                        env[k] = pre + merge(a[len(pre):], b[len(pre):])
                    else:
                        env[k] = merge(a, b)
            elif isinstance(st, ast.For):
                roles = loop_roles(st.target, st.iter)
                acc = {}
                for b in st.body:
                    if isinstance(b, ast.AugAssign) and isinstance(
                            b.op, ast.Add) and isinstance(b.target, ast.Name):
                        acc.setdefault(b.target.id, [])
                        acc[b.target.id] += val(b.value)
                    elif isinstance(b, ast.Expr) and isinstance(
                            b.value, ast.Call) and isinstance(
                            b.value.func, ast.Attribute) and \
                            b.value.func.attr == "append" and isinstance(
                            b.value.func.value, ast.Name):
                        acc.setdefault("@" + b.value.func.value.id, [])
                        acc["@" + b.value.func.value.id] += val(
                            b.value.args[0])
                    else:
                        raise Unknown
                for k, pieces in acc.items():
                    if k.startswith("@"):
                        env[k[1:]] = [("replist", pieces, roles)]
                    else:
                        env[k] = env.get(k, []) + [("rep", pieces, roles)]
            elif isinstance(st, ast.Return):
                return val(st.value)
            else:
                raise Unknown
        return None

    try:
        return run(w.node.body)
    except Unknown:
        return None


def run(prog: Program, res: Result, tier: str) -> None:
    res.rule("X-FORMAT", "xyz_str writes exactly as many header lines as "
             "_from_xyz_stream skips; x, y, z share one fixed-point format "
             "with >= 8 decimals; np.loadtxt is called with comments=None "
             "and its result is made at least 1-d (single-atom files); the "
             "symbol field holds the longest element symbol")
    res.rule("X-CONN", "bonds are created from the strict upper triangle "
             "(k=1): no self-bond, each pair once; the cut-off array is "
             "filled symmetrically; the comparison is strict `<`; default "
             "cut-off = 1.2 x sum of covalent radii; the radii table covers "
             "every element of SYMBOLS")
    res.rule("X-DIST", "pairwise_distances uses the coordinates only through "
             "differences of rows, squared, summed over the last axis and "
             "square-rooted (rigid-motion invariant by construction, "
             "symmetric, zero diagonal)")
    # number text is not post-processed with a character-set strip that can
    # eat digits of the integer part ("100.00000000".rstrip("0.") == "1")
    res.rule("X-NUMTEXT", "a formatted coordinate is never passed through "
             "str.strip / rstrip with a character set that contains both '0' "
             "and '.': such a strip removes zeros of the integer part")
    n_strip = 0
    for fi_ in prog.functions.values():
        if fi_.module.name != "coords":
            continue
        for c in ast.walk(fi_.node):
            if isinstance(c, ast.Call) and isinstance(
                    c.func, ast.Attribute) and c.func.attr in (
                    "rstrip", "strip") and len(c.args) == 1 and isinstance(
                    c.args[0], ast.Constant) and isinstance(
                    c.args[0].value, str):
                n_strip += 1
                chars = c.args[0].value
                inst_ = f"{fi_.short}: {norm(c, 60)}"
                if "0" in chars and "." in chars:
                    res.bad("X-NUMTEXT", inst_, fi_.loc(c),
                            f"{fi_.short}: `{norm(c, 60)}` strips the "
                            f"character set {chars!r}, not a suffix: "
                            "'100.00000000' becomes '1', '-250.00000000' "
                            "becomes '-25'; the text read back is a "
                            "different coordinate")
                else:
                    res.ok("X-NUMTEXT", inst_, fi_.loc(c))
    if n_strip == 0:
        res.ok("X-NUMTEXT", "coords.py: no character-set strip of number text")
    geo = prog.cls("Geometry")
    w = geo.methods.get("xyz_str")
    r = geo.methods.get("_from_xyz_stream")
    if not (w and r):
        raise AnalysisError("Geometry.xyz_str / _from_xyz_stream vanished")
    # The returned text as a template: literal pieces, holes and one repeated
    # per-atom group (text builder evaluated symbolically, any spelling:
    # += in a loop, "".join(list comprehension), header + body ...)
    tmpl = _template(w)
    if tmpl is None:
        res.unrecognised("X-FORMAT", "text template of xyz_str", w.loc(),
                         "the string built by xyz_str could not be followed")
        tmpl = []
    reps = [p for p in tmpl if p[0] == "rep"]
    headers = {0}           # possible numbers of header lines, per path
    for p in tmpl:
        if p[0] == "rep":
            break
        if p[0] == "lit":
            headers = {h + p[1].count("\n") for h in headers}
        elif p[0] == "alt":
            headers = {h + k for h in headers for k in p[1:]}
    header = sorted(headers)[0] if len(headers) == 1 else sorted(headers)
    # splitting the text with str.splitlines() anywhere in the reader also
    # splits at \x0b \x0c \x1c-\x1e \x85 \u2028 \u2029 inside the comment
    for rf in (r, geo.methods.get("from_xyz")):
        if rf is None:
            continue
        for n in ast.walk(rf.node):
            if isinstance(n, ast.Call) and isinstance(
                    n.func, ast.Attribute) and n.func.attr == "splitlines":
                res.bad("X-FORMAT", f"{rf.short} splits the text with "
                        "splitlines()", rf.loc(n),
                        f"{rf.short}: `{norm(n, 60)}`: str.splitlines() "
                        "breaks a comment line that contains \\x0b, \\x0c, "
                        "\\x1c-\\x1e, \\x85, \\u2028 or \\u2029 into several "
                        "lines; the header is then one line short and the "
                        "tail of the comment is parsed as an atom line",
                        instance="reader never uses str.splitlines()")
    load = None
    for n in ast.walk(r.node):
        if isinstance(n, ast.Call) and call_name(n) in ("np.loadtxt",
                                                        "numpy.loadtxt",
                                                        "np.genfromtxt"):
            load = n
    if load is None:
        raise AnalysisError("_from_xyz_stream: np.loadtxt call vanished")
    kw = {k.arg: k.value for k in load.keywords}
    try:
        skip = const(kw["skiprows"]) if "skiprows" in kw else 0
    except Exception:
        skip = None
    inst = f"header lines written ({header}) == skiprows ({skip})"
    if tmpl and len(reps) == 1 and header == skip:
        res.ok("X-FORMAT", inst, w.loc())
    elif tmpl and len(reps) == 1 and skip is not None:
        res.bad("X-FORMAT", f"header {header} vs skiprows {skip}", r.loc(load),
                f"{inst}: the reader skips a different number of lines than "
                "the writer emits", instance=inst)
    elif tmpl:
        res.unrecognised("X-FORMAT", inst, w.loc(),
                         f"{len(reps)} repeated groups / branches writing "
                         "different numbers of lines")
    # coordinate format: the per-atom group
    line = reps[0][1] if len(reps) == 1 else []
    loopvars = reps[0][2] if len(reps) == 1 else {}
    holes = [p for p in line if p[0] == "hole"]
    def coord_index(h):
        e = h[1]
        if isinstance(e, ast.Subscript) and isinstance(e.value, ast.Name) \
                and loopvars.get(e.value.id) == "coords":
            try:
                return const(e.slice)
            except Exception:
                return None
        if isinstance(e, ast.Name) and isinstance(
                loopvars.get(e.id), tuple):
            return loopvars[e.id][1]
        return "no"
    specs = [(norm(h[1]), h[2]) for h in holes if coord_index(h) != "no"]
    inst = f"coordinate fields {specs}"
    idx = [coord_index(h) for h in holes if coord_index(h) != "no"]
    ok = len(specs) == 3 and len({sp for _, sp in specs}) == 1 and \
        idx == [0, 1, 2]
    if ok:
        m = re.fullmatch(r"[+ ]?\d*\.(\d+)[fFeE]", specs[0][1] or "")
        ok = bool(m) and int(m.group(1)) >= 8
    if ok:
        res.ok("X-FORMAT", inst, w.loc())
    elif line:
        res.bad("X-FORMAT", f"coordinate format {specs}", w.loc(),
                f"{inst}: x, y, z (in this order) must share one fixed-point "
                "format with at least 8 decimals", instance=inst)
    # line layout: symbol x y z separated by blanks, one line per atom
    inst = "atom line = symbol, x, y, z, newline"
    if line:
        sym = [h for h in holes if isinstance(h[1], ast.Subscript)
               and norm(h[1].value) == "SYMBOLS"
               and isinstance(h[1].slice, ast.Name)
               and loopvars.get(h[1].slice.id) == "atom_type"]
        lits = [p[1] for p in line if p[0] == "lit"]
        shape = "".join("H" if p[0] == "hole" else p[1] for p in line)
        if len(sym) == 1 and line[0] is sym[0] and re.fullmatch(
                r"H +H +H +H *\n", shape):
            res.ok("X-FORMAT", inst, w.loc(), repr(shape))
        elif len(holes) == 4 and len(sym) == 1:
            res.bad("X-FORMAT", f"atom line {shape!r}", w.loc(),
                    f"{inst}: the line is laid out as {shape!r} (H = field)",
                    instance=inst)
        else:
            res.unrecognised("X-FORMAT", inst, w.loc(),
                             f"per-atom line {shape!r} over zip("
                             "self.atom_types, self.coords) not recognised")
    # the text reaches the parser as ONE stream: str.splitlines() also splits
    # at \x0b \x0c \x1c-\x1e \x85 \u2028 \u2029, which may occur in a comment
    fx = geo.methods.get("from_xyz")
    inst = "from_xyz hands the text to the parser as a stream"
    if fx is None:
        res.unrecognised("X-FORMAT", inst, r.loc(), "Geometry.from_xyz vanished")
    else:
        ft = utext(fx.node) + utext(r.node)
        if ".splitlines(" in ft:
            res.bad("X-FORMAT", "from_xyz splits the text with splitlines()",
                    fx.loc(), f"{inst}: str.splitlines() breaks a comment "
                    "line that contains \\x0b, \\x0c, \\x1c-\\x1e, \\x85, "
                    "\\u2028 or \\u2029 into several lines; skiprows then "
                    "stops inside the comment", instance=inst)
        elif "io.StringIO(" in ft or "StringIO(" in ft:
            res.ok("X-FORMAT", inst, fx.loc())
        else:
            res.unrecognised("X-FORMAT", inst, fx.loc(),
                             "neither io.StringIO nor splitlines found")
    inst = "np.loadtxt(comments=None)"
    if "comments" in kw and norm(kw["comments"]) == "None":
        res.ok("X-FORMAT", inst, r.loc(load))
    else:
        res.bad("X-FORMAT", "loadtxt comments", r.loc(load),
                f"{inst}: with the default '#' a comment line or symbol "
                "containing # truncates the data", instance=inst)
    inst = "reader result is at least 1-d"
    rt = utext(r.node)
    if ("ndmin" in kw and norm(kw["ndmin"]) in ("1", "2")) or \
            "np.atleast_1d(" in rt:
        res.ok("X-FORMAT", inst, r.loc(load))
    else:
        res.bad("X-FORMAT", "loadtxt ndmin", r.loc(load),
                f"{inst}: for a one-atom file np.loadtxt returns a 0-d "
                "record, iterating data['atom'] raises TypeError: a "
                "single-atom geometry cannot be read back", instance=inst)
    # symbol width
    symbols = const(prog.module_assign("periodic_table", "SYMBOLS"))
    longest = max(len(s) for s in symbols.values())
    dt_txt = rt
    if "dtype" in kw and isinstance(kw["dtype"], ast.Name):
        try:
            dt_txt += " " + norm(prog.module_assign(COORDS_MOD, kw["dtype"].id),
                                 400)
        except Exception:
            pass
    m = re.search(r"\('atom', 'U(\d+)'\)", dt_txt)
    inst = f"symbol field width U{m.group(1) if m else '?'} >= {longest}"
    if m and int(m.group(1)) >= longest:
        res.ok("X-FORMAT", inst, r.loc())
    elif m:
        res.bad("X-FORMAT", "symbol width", r.loc(), f"{inst}: too narrow, "
                "two-letter symbols are truncated", instance=inst)
    else:
        res.unrecognised("X-FORMAT", inst, r.loc(), "dtype of the symbol "
                         "column not found")
    inst = "elements restored through PERIODIC_TABLE, columns x, y, z in order"
    # the structured array under its role name
    dnames = [n_.targets[0].id for n_ in ast.walk(r.node)
              if isinstance(n_, ast.Assign) and len(n_.targets) == 1
              and isinstance(n_.targets[0], ast.Name) and n_.value is load]
    if len(dnames) == 1 and dnames[0] != "data":
        from ..iso import rename_locals
        r = rename_locals(r, {dnames[0]: "data"})
    cs = [n for n in ast.walk(r.node) if isinstance(n, ast.Call)
          and call_name(n) in ("np.column_stack", "np.stack", "np.array",
                               "np.vstack", "np.transpose")
          and "data[" in norm(n)]
    cols = re.findall(r"data\['([xyz])'\]", norm(cs[0], 300)) if cs else []
    from ..core import alpha_norm
    lookup = any(alpha_norm(n) in (
        "[PERIODIC_TABLE[_v0] for _v0 in data['atom']]",
        "(PERIODIC_TABLE[_v0] for _v0 in data['atom'])")
        for n in ast.walk(r.node)
        if isinstance(n, (ast.ListComp, ast.GeneratorExp)))
    if lookup and cols == ["x", "y", "z"]:
        res.ok("X-FORMAT", inst, r.loc())
    elif cols and cols != ["x", "y", "z"]:
        res.bad("X-FORMAT", f"reader columns {cols}", r.loc(cs[0]),
                f"{inst}: coordinates are assembled as {cols}", instance=inst)
    else:
        res.unrecognised("X-FORMAT", inst, r.loc(), "column assembly / "
                         "element lookup not recognised")
    # ---- connectivity -----------------------------------------------------
    fb = prog.resolve_method("MolGraph", "from_atom_types_and_bond_order_matrix")
    t = utext(fb.node)
    tri = [n for n in ast.walk(fb.node) if isinstance(n, ast.Call)
           and call_name(n) in ("np.triu_indices", "np.triu_indices_from")]
    inst = "bonds from the strict upper triangle (k=1)"
    ok = False
    if tri:
        k = {x.arg: norm(x.value) for x in tri[0].keywords}.get("k")
        if k is None and len(tri[0].args) > 1:
            k = norm(tri[0].args[1])
        ok = k == "1"
    # the index arrays of the call feed the pair loop
    pair_loop = False
    if tri:
        holders = [n.targets[0] for n in ast.walk(fb.node)
                   if isinstance(n, ast.Assign) and n.value is tri[0]]
        names = [norm(e) for h in holders for e in (
            h.elts if isinstance(h, ast.Tuple) else [h])]
        for l in ast.walk(fb.node):
            if isinstance(l, ast.For) and isinstance(l.iter, ast.Call) and \
                    call_name(l.iter) == "zip" and [
                    norm(a_) for a_ in l.iter.args] == names and names:
                pair_loop = True
            elif isinstance(l, ast.For) and l.iter is tri[0]:
                pair_loop = True
    if ok and pair_loop:
        res.ok("X-CONN", inst, fb.loc())
    elif ok:
        res.unrecognised("X-CONN", inst, fb.loc(tri[0]),
                         "loop over the index pairs of np.triu_indices")
    elif tri:
        res.bad("X-CONN", f"upper triangle k={k}", fb.loc(tri[0]),
                f"{inst}: np.triu_indices is called with k={k} (k=0 creates "
                "self-bonds)", instance=inst)
    else:
        res.unrecognised("X-CONN", inst, fb.loc(), "no np.triu_indices call: "
                         "pair enumeration not recognised")
    inst = "atoms are created as 0..n-1 from enumerate(atom_types)"
    enum_ok = False
    for l in ast.walk(fb.node):
        if isinstance(l, ast.For) and norm(l.iter) == "enumerate(atom_types)" \
                and isinstance(l.target, ast.Tuple) and len(
                l.target.elts) == 2:
            i_, a_ = (norm(e) for e in l.target.elts)
            if any(isinstance(c, ast.Call) and isinstance(
                    c.func, ast.Attribute) and c.func.attr == "add_atom"
                   and c.args and norm(c.args[0]) == i_
                   and (any(k.arg == "atom_type" and norm(k.value) == a_
                            for k in c.keywords)
                        or (len(c.args) > 1 and norm(c.args[1]) == a_))
                   for c in ast.walk(l)):
                enum_ok = True
    if enum_ok:
        res.ok("X-CONN", inst, fb.loc())
    else:
        res.unrecognised("X-CONN", inst, fb.loc(), "enumerate(atom_types) / "
                         "add_atom(i, ...) not found")
    dfd = prog.cls("_DefaultFuncDict").methods.get("array")
    at = utext(dfd.node)
    inst = "_DefaultFuncDict.array stores every cut-off symmetrically"
    tgts = [t for n in ast.walk(dfd.node) if isinstance(n, ast.Assign)
            for t in n.targets if isinstance(t, ast.Subscript)]
    stores = [(norm(t.value.slice), norm(t.slice)) for t in tgts
              if isinstance(t.value, ast.Subscript)]
    stores += [tuple(norm(e) for e in t.slice.elts) for t in tgts
               if isinstance(t.slice, ast.Tuple) and len(t.slice.elts) == 2]
    sym = all((b, a) in stores for a, b in stores) and bool(stores)
    if sym and "combinations(" in at:
        res.ok("X-CONN", inst, dfd.loc())
    elif stores and not sym:
        res.bad("X-CONN", f"cut-off symmetry {stores}", dfd.loc(),
                f"{inst}: only {stores} is stored; the cut-off matrix is "
                "asymmetric and so is the connectivity", instance=inst)
    elif "np.maximum(" in at or ".T" in at:
        res.ok("X-CONN", inst, dfd.loc(), "symmetrised")
    else:
        res.unrecognised("X-CONN", inst, dfd.loc(), "fill of the cut-off "
                         "array not recognised")
    # no self-bonds: an atom is at distance 0 from itself, so the diagonal of
    # the cut-off array must be 0 (0 < 0 is false)
    inst = "_DefaultFuncDict.array has a zero diagonal (no self-bonds)"
    zero_init = any(isinstance(n, ast.Call) and call_name(n) in (
        "np.zeros", "numpy.zeros", "np.zeros_like") for n in ast.walk(dfd.node))
    diag_clear = any(isinstance(n, ast.Call) and call_name(n) in (
        "np.fill_diagonal", "numpy.fill_diagonal") and len(n.args) >= 2
        and norm(n.args[1]) in ("0", "0.0") for n in ast.walk(dfd.node))
    pair_iter = re.search(r"combinations\(.*, 2\)", at) is not None
    diag_store = any(a_ == b_ for a_, b_ in stores)
    # pairs WITH repetition include (i, i): the diagonal is filled
    if "combinations_with_replacement(" in at or re.search(
            r"product\(.*repeat=2\)", at):
        diag_store = True
    # a per-element table spread over the atoms (T[ix[:, None], ix[None, :]],
    # T[np.ix_(ix, ix)]): entry (a, a) is the element's cut-off with itself
    # (or, if T's diagonal is empty, equal elements never bond)
    for n in ast.walk(dfd.node):
        if isinstance(n, ast.Subscript) and (
                "np.ix_(" in norm(n.slice, 200) or (
                    isinstance(n.slice, ast.Tuple) and len(
                        n.slice.elts) == 2 and "None" in norm(n.slice, 200))):
            if isinstance(n.slice, ast.Tuple):
                roots = {re.sub(r"\[.*", "", norm(x, 200))
                         for x in n.slice.elts}
                if len(roots) != 1:
                    continue
            diag_store = True
    if diag_clear or (zero_init and pair_iter and not diag_store):
        res.ok("X-CONN", inst, dfd.loc())
    elif diag_store or not zero_init:
        res.bad("X-CONN", "cut-off diagonal", dfd.loc(),
                f"{inst}: the array is not built from zeros filled only for "
                "pairs of different atoms (and no np.fill_diagonal(.., 0)): "
                "the diagonal carries the cut-off of an element with itself, "
                "and distance 0 < cut-off bonds every atom to itself",
                instance=inst)
    else:
        res.unrecognised("X-CONN", inst, dfd.loc(),
                         "how the off-diagonal entries are enumerated")
    bfd = prog.cls("BondsFromDistance")
    arr = bfd.methods.get("array")
    from ..pe import resolve
    cmp_ = []
    for n in ast.walk(arr.node):
        if isinstance(n, ast.Compare) and len(n.ops) == 1:
            full = resolve(n, arr.node)
            if isinstance(full, ast.Compare) and "pairwise_distances" in norm(
                    full.left, 300):
                cmp_.append(full)
    inst = "BondsFromDistance.array: distance < cut-off (strict)"
    if cmp_ and isinstance(cmp_[0].ops[0], ast.Lt) and \
            "connectivity_cutoff.array(" in norm(cmp_[0].comparators[0], 300):
        res.ok("X-CONN", inst, arr.loc(cmp_[0]))
    else:
        res.bad("X-CONN", "array comparison", arr.loc(),
                f"{inst}: found `{norm(cmp_[0]) if cmp_ else 'nothing'}`",
                instance=inst)
    inst = "BondsFromDistance.array: np.where(cond, 1, 0)"
    wh = [n for n in ast.walk(arr.node) if isinstance(n, ast.Call)
          and call_name(n) == "np.where"]
    if wh and [norm(a) for a in wh[0].args[1:]] == ["1", "0"]:
        res.ok("X-CONN", inst, arr.loc())
    elif wh:
        res.bad("X-CONN", "where polarity", arr.loc(wh[0]),
                f"{inst}: np.where is called with "
                f"{[norm(a) for a in wh[0].args[1:]]}", instance=inst)
    else:
        res.unrecognised("X-CONN", inst, arr.loc(), "no np.where")
    call = bfd.methods.get("__call__")
    ct = utext(call.node)
    inst = "BondsFromDistance.__call__: distance < cut-off (strict)"
    dc_ = [n for n in ast.walk(call.node) if isinstance(n, ast.Compare)
           and norm(n.left) == "distance" and "connectivity_cutoff" in norm(n)]
    if dc_ and isinstance(dc_[0].ops[0], ast.Lt):
        res.ok("X-CONN", inst, call.loc())
    elif dc_:
        res.bad("X-CONN", "__call__ comparison", call.loc(dc_[0]),
                f"{inst}: found `{norm(dc_[0])}`", instance=inst)
    else:
        res.unrecognised("X-CONN", inst, call.loc(), "comparison of the "
                         "distance with the cut-off not found")
    dc = prog.fn("coords:default_connectivity_cutoff")
    dt = utext(dc.node)
    inst = "default cut-off = sum of covalent radii * 1.2"
    mults = [n for n in ast.walk(dc.node) if isinstance(n, ast.BinOp)
             and isinstance(n.op, ast.Mult)
             and any(isinstance(x, ast.Constant) for x in (n.left, n.right))]
    factor = None
    if mults:
        c = mults[0].left if isinstance(mults[0].left, ast.Constant) else \
            mults[0].right
        factor = c.value
    radii_sum = "sum(" in dt and "COVALENT_RADII[" in dt
    if factor == 1.2 and radii_sum:
        res.ok("X-CONN", inst, dc.loc())
    elif factor is not None and radii_sum:
        res.bad("X-CONN", f"default cut-off factor {factor}", dc.loc(),
                f"{inst}: the factor is {factor}", instance=inst)
    else:
        res.unrecognised("X-CONN", inst, dc.loc(),
                         f"`{norm(dc.node.body[-1])}` not recognised")
    radii = const(prog.module_assign("periodic_table", "_COVALENT_RADII"))
    inst = f"_COVALENT_RADII covers the {len(symbols)} elements of SYMBOLS"
    if set(radii) == set(symbols) and len(symbols) == 118 and all(
            isinstance(v, float) and v > 0 for v in radii.values()):
        res.ok("X-CONN", inst, "src/stereomolgraph/periodic_table.py")
    else:
        res.bad("X-CONN", "radii table", "src/stereomolgraph/periodic_table.py",
                f"{inst}: key sets differ "
                f"({sorted(set(symbols) ^ set(radii))[:5]})", instance=inst)
    # _DefaultFuncDict.__missing__ symmetric fallback
    ms = prog.cls("_DefaultFuncDict").methods.get("__missing__")
    mt = utext(ms.node)
    inst = "_DefaultFuncDict.__missing__ looks up the swapped pair first"
    if "self.get((key[1], key[0]), None)" in mt and "self.default_func(key)" in mt:
        res.ok("X-CONN", inst, ms.loc())
    else:
        res.unrecognised("X-CONN", inst, ms.loc(), "swapped-pair lookup / "
                         "default function call not found")
    # ---- distances ------------------------------------------------------------
    from ..geo import K as GK, N as GN, Geo
    pd = prog.fn("coords:pairwise_distances")
    c = pd.params()[0]
    g = Geo(prog, pd, {c: GK("P", 1)}, {}).run()
    inst = "pairwise_distances is a scalar function of coordinate differences"
    rk = {k.k for _, k in g.returns}
    if g.taints:
        n0, why = g.taints[0]
        res.bad("X-DIST", f"pairwise_distances: {norm(n0, 80)}", pd.loc(n0),
                f"{inst}: `{norm(n0, 80)}` uses the coordinates other than "
                f"through differences of rows ({why}): the distances (and "
                "the bonds near the cut-off) change under translation",
                instance=inst)
    elif rk == {"S"}:
        res.ok("X-DIST", inst, pd.loc())
    else:
        res.unrecognised("X-DIST", inst, pd.loc(), f"result kind {sorted(rk)}")
    res.trusted += ["numpy semantics of loadtxt / triu_indices / where",
                    "string literals of the writer contain the newlines"]
