"""C03 -- hash agrees with equality and is canonical across runs."""
from __future__ import annotations

from .. import eqrules, hashrules
from ..core import DESCRIPTOR_CLASSES, Program
from ..report import Result
from . import C04

LEVEL_TEXT = (
    "static aggregation-order analysis: every colour aggregation call is "
    "classified by the provenance of its last axis (def-use) and must use "
    "the multiset hash on unordered axes and the tuple hash on ordered ones; "
    "identifiers never enter hashed data; parity -1 is normalised; the stop "
    "criterion is renaming-invariant; the call graph below __hash__ is free "
    "of process-salted hashing; descriptor __hash__ has the orbit form "
    "(C04). Equality => equal hash as a behaviour is not decided.")


def run(prog: Program, res: Result, tier: str) -> None:
    from .. import memo
    memo.report(prog, res)
    res.trusted += ["axis-provenance classification of sa/hashrules.py"]
    hashrules.check_aggregation(prog, res)
    hashrules.check_multiset_def(prog, res)
    hashrules.check_parity_norm(prog, res)
    hashrules.check_hash_pure(prog, res)
    hashrules.check_stop_invariant(prog, res)
    hashrules.check_roles(prog, res)
    hashrules.check_final_hash(prog, res)
    eqrules.check_empty_guard(prog, res)
    C04.check_tables(prog, res)
    for name in DESCRIPTOR_CLASSES:
        C04.check_hash(prog, res, prog.resolve_method(name, "__hash__"), name)
        C04.check_perm_helpers(prog, res, name)
    C04.check_immutable(prog, res)
