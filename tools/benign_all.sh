#!/bin/bash
# tools/benign_all.sh: every behaviour preserving refactor under /verif/benign
# against every registered check (scratch worktrees, parallel).  Any VIOLATION
# here is a false alarm of the machinery.
cd /verif
ls -d benign/*/ | xargs -P 8 -I{} sh -c 'tools/benign_eval.sh {} > /tmp/benign_$(basename {}).log 2>&1'
tot=0
for d in benign/*/; do n=$(basename $d); f=/tmp/benign_$n.log
  v=$(grep -c "violations=[1-9]" $f); e=$(grep -c "errors=[1-9]" $f)
  echo "$n false-alarm-checks=$v analysis-error-checks=$e $(grep -E '^C[0-9]+ ' $f | tr '\n' ';')"
  tot=$((tot+v)); done
echo "TOTAL false alarm checks: $tot"
