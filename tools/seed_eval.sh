#!/bin/bash
# tools/seed_eval.sh <dir with patch.diff + demo.py> [--no-tests]
# scratch worktree of /repo HEAD: demo passes clean, fails with the patch, suite
# passes with the patch; then every registered quick check is run against the
# patched worktree (VERIF_REPO), /repo itself is never touched.
set -u
D="$(cd "$1" && pwd)"; NOTEST="${2:-}"
W=/tmp/seedeval_$$
git -C /repo worktree add -q --detach $W HEAD || exit 3
cd $W
PYTHONPATH=$W/src /venv/bin/python $D/demo.py >/dev/null 2>&1; echo "clean demo exit=$?"
if ! git apply $D/patch.diff; then echo "PATCH DOES NOT APPLY"; cd /; git -C /repo worktree remove --force $W; exit 4; fi
PYTHONPATH=$W/src /venv/bin/python $D/demo.py >/dev/null 2>&1; echo "patched demo exit=$?"
if [ "$NOTEST" != "--no-tests" ]; then
  PYTHONPATH=$W/src timeout 1200 /venv/bin/python -m pytest -q -p no:cacheprovider -n 8 2>&1 | tail -1
fi
echo "--- checks against the patched tree"
cd /verif
for p in $(python3 -c "import json;print(' '.join(c['property_id'] for c in json.load(open('/verif/MANIFEST.json'))['checks']))") ${EXTRA_PROPS:-}; do
  out=$(VERIF_REPO=$W VERIF_NO_EVIDENCE=1 ./check $p 2>&1 | grep -v conda); rc=$?
  n=$(echo "$out" | grep -c '^VIOLATION')
  e=$(echo "$out" | grep -c '^ANALYSIS-ERROR')
  echo "$p violations=$n errors=$e"
  echo "$out" | grep -A0 '^  src' | head -3
done
cd /; git -C /repo worktree remove --force $W
