#!/bin/bash
# runs the unedited baseline suite on every commit of /repo after the pinned snapshot
LOG=${1:-/tmp/fix_commits.log}; : > $LOG
for c in $(git -C /repo rev-list --reverse c542f2f..HEAD); do
  W=/tmp/fixval_$$
  git -C /repo worktree add -q --detach $W $c || continue
  r=$(cd $W && PYTHONPATH=$W/src timeout 1200 /venv/bin/python -m pytest -q -p no:cacheprovider -n 6 2>&1 | tail -1)
  echo "$(git -C /repo log --format='%h %s' -1 $c | cut -c1-90) :: $r" >> $LOG
  git -C /repo worktree remove --force $W
done
echo DONE >> $LOG
