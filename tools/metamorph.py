#!/venv/bin/python
"""Metamorphic false-alarm hunt: machine generated, behaviour preserving
rewrites of the CURRENT sources, checked in memory by every registered check.

A rewrite that makes a check report a new finding is a false alarm of the
machinery (the property still holds); a rewrite that makes a check give up
(ANALYSIS-ERROR) shows where a rule depends on spelling.  Nothing is written
to /repo and nothing is executed.

usage: tools/metamorph.py [--props C01,C02] [--transforms rename,swapeq,...]
                          [--granularity file|function] [--jobs N]
"""
from __future__ import annotations

import argparse
import ast
import json
import os
import sys
from concurrent.futures import ProcessPoolExecutor
from pathlib import Path

VERIF = Path(__file__).resolve().parent.parent
sys.path.insert(0, str(VERIF))
os.environ.setdefault("VERIF_NO_EVIDENCE", "1")

from sa.core import PKG_REL, REPO, Program  # noqa: E402

PROPS = [c["property_id"] for c in json.load(open(VERIF / "MANIFEST.json"))[
    "checks"]]


# ------------------------------------------------------------------ transforms
def _funcs(tree):
    for n in ast.walk(tree):
        if isinstance(n, ast.FunctionDef):
            yield n


def _nested_scope(fn):
    return any(isinstance(n, (ast.FunctionDef, ast.Lambda, ast.ClassDef,
                              ast.AsyncFunctionDef))
               for n in ast.walk(fn) if n is not fn)


def t_rename(fn) -> bool:
    """alpha-rename the locals of one function (x -> x_r)."""
    if _nested_scope(fn):
        return False
    a = fn.args
    params = {x.arg for x in a.posonlyargs + a.args + a.kwonlyargs}
    if a.vararg:
        params.add(a.vararg.arg)
    if a.kwarg:
        params.add(a.kwarg.arg)
    declared = {n for g in ast.walk(fn)
                if isinstance(g, (ast.Global, ast.Nonlocal)) for n in g.names}
    local = {n.id for n in ast.walk(fn) if isinstance(n, ast.Name)
             and isinstance(n.ctx, (ast.Store, ast.Del))} - params - declared
    local -= {"_"}
    # walrus targets inside comprehensions leak: fine, renamed consistently
    if not local:
        return False
    used = {n.id for n in ast.walk(fn) if isinstance(n, ast.Name)}
    table = {}
    for name in local:
        new = name + "_r"
        while new in used:
            new += "r"
        table[name] = new
    for n in ast.walk(fn):
        if isinstance(n, ast.Name) and n.id in table:
            n.id = table[n.id]
    return True


def t_swapeq(fn) -> bool:
    """a == b -> b == a, a != b -> b != a (single comparisons)."""
    ch = False
    for n in ast.walk(fn):
        if isinstance(n, ast.Compare) and len(n.ops) == 1 and isinstance(
                n.ops[0], (ast.Eq, ast.NotEq)):
            n.left, n.comparators[0] = n.comparators[0], n.left
            ch = True
    return ch


def t_invert_if(fn) -> bool:
    """if c: A else: B  ->  if not c: B else: A."""
    ch = False
    for n in ast.walk(fn):
        if isinstance(n, ast.If) and n.orelse:
            n.test = ast.UnaryOp(ast.Not(), n.test)
            n.body, n.orelse = n.orelse, n.body
            ch = True
    return ch


def t_ret_temp(fn) -> bool:
    """return expr -> result_tmp = expr; return result_tmp."""
    if any(isinstance(n, (ast.Yield, ast.YieldFrom)) for n in ast.walk(fn)):
        return False
    ch = False

    def walk(stmts):
        nonlocal ch
        out = []
        for st in stmts:
            for f in ("body", "orelse", "finalbody"):
                sub = getattr(st, f, None)
                if isinstance(sub, list) and sub and isinstance(
                        sub[0], ast.stmt):
                    setattr(st, f, walk(sub))
            for h in getattr(st, "handlers", []) or []:
                h.body = walk(h.body)
            if isinstance(st, ast.Return) and st.value is not None and \
                    not isinstance(st.value, (ast.Name, ast.Constant)):
                out.append(ast.Assign(
                    targets=[ast.Name("result_tmp", ast.Store())],
                    value=st.value))
                out.append(ast.Return(ast.Name("result_tmp", ast.Load())))
                ch = True
            else:
                out.append(st)
        return out

    fn.body = walk(fn.body)
    return ch


def t_in_to_or(fn) -> bool:
    """x in (a, b) -> x == a or x == b   (x a plain name)."""
    ch = False

    class T(ast.NodeTransformer):
        def visit_Compare(self, n):
            nonlocal ch
            self.generic_visit(n)
            if len(n.ops) == 1 and isinstance(n.ops[0], ast.In) and \
                    isinstance(n.left, ast.Name) and isinstance(
                    n.comparators[0], ast.Tuple) and \
                    2 <= len(n.comparators[0].elts) <= 3 and all(
                    isinstance(e, (ast.Name, ast.Constant, ast.Attribute))
                    for e in n.comparators[0].elts):
                ch = True
                return ast.BoolOp(ast.Or(), [
                    ast.Compare(ast.Name(n.left.id, ast.Load()), [ast.Eq()],
                                [e]) for e in n.comparators[0].elts])
            return n

    T().visit(fn)
    return ch


def t_format(fn) -> bool:
    """no change besides ast.unparse of the whole file (layout, comments)."""
    return True


def t_elif_nest(fn) -> bool:
    """if a: A elif b: B  ->  if a: A else: (if b: B)  is the same AST; instead
    split `if a and b:` without else into nested ifs."""
    ch = False
    for n in ast.walk(fn):
        if isinstance(n, ast.If) and not n.orelse and isinstance(
                n.test, ast.BoolOp) and isinstance(n.test.op, ast.And) and \
                len(n.test.values) == 2:
            a, b = n.test.values
            inner = ast.If(test=b, body=n.body, orelse=[])
            n.test = a
            n.body = [inner]
            ch = True
    return ch


def t_augassign(fn) -> bool:
    """x |= y / x -= y on sets stay; `x = x + 1`-> unchanged.  Here:
    `x += [..]`-free: turn `for a in xs: ys.append(f(a))` untouched.  The
    transform implemented: tuple targets `a, b = x, y` -> two assignments when
    the sides are independent."""
    ch = False

    def walk(stmts):
        nonlocal ch
        out = []
        for st in stmts:
            for f in ("body", "orelse", "finalbody"):
                sub = getattr(st, f, None)
                if isinstance(sub, list) and sub and isinstance(
                        sub[0], ast.stmt):
                    setattr(st, f, walk(sub))
            for h in getattr(st, "handlers", []) or []:
                h.body = walk(h.body)
            if isinstance(st, ast.Assign) and len(st.targets) == 1 and \
                    isinstance(st.targets[0], ast.Tuple) and isinstance(
                    st.value, ast.Tuple) and len(st.value.elts) == len(
                    st.targets[0].elts) and all(
                    isinstance(t, ast.Name) for t in st.targets[0].elts):
                tn = {t.id for t in st.targets[0].elts}
                used = {n.id for v in st.value.elts for n in ast.walk(v)
                        if isinstance(n, ast.Name)}
                if not tn & used and not any(
                        isinstance(n, ast.Call) for v in st.value.elts
                        for n in ast.walk(v)):
                    for t, v in zip(st.targets[0].elts, st.value.elts):
                        out.append(ast.Assign(targets=[t], value=v))
                    ch = True
                    continue
            out.append(st)
        return out

    fn.body = walk(fn.body)
    return ch


def t_else_after_exit(fn) -> bool:
    """if c: ...; return X   REST   ->   if c: ...; return X  else: REST."""
    ch = False

    def walk(stmts):
        nonlocal ch
        for i, st in enumerate(stmts):
            for f in ("body", "orelse", "finalbody"):
                sub = getattr(st, f, None)
                if isinstance(sub, list) and sub and isinstance(
                        sub[0], ast.stmt):
                    setattr(st, f, walk(sub))
            for h in getattr(st, "handlers", []) or []:
                h.body = walk(h.body)
            if isinstance(st, ast.If) and not st.orelse and isinstance(
                    st.body[-1], (ast.Return, ast.Raise, ast.Continue)) and \
                    i + 1 < len(stmts) and not any(
                    isinstance(x, (ast.FunctionDef, ast.ClassDef))
                    for x in stmts[i + 1:]):
                st.orelse = stmts[i + 1:]
                ch = True
                return stmts[:i + 1]
        return stmts

    fn.body = walk(fn.body)
    return ch


def t_dedent_else(fn) -> bool:
    """if c: ...; return X  else: REST   ->   if c: ...; return X   REST."""
    ch = False

    def walk(stmts):
        nonlocal ch
        out = []
        for st in stmts:
            for f in ("body", "orelse", "finalbody"):
                sub = getattr(st, f, None)
                if isinstance(sub, list) and sub and isinstance(
                        sub[0], ast.stmt):
                    setattr(st, f, walk(sub))
            for h in getattr(st, "handlers", []) or []:
                h.body = walk(h.body)
            if isinstance(st, ast.If) and st.orelse and isinstance(
                    st.body[-1], (ast.Return, ast.Raise, ast.Continue)):
                rest = st.orelse
                st.orelse = []
                out.append(st)
                out.extend(rest)
                ch = True
            else:
                out.append(st)
        return out

    fn.body = walk(fn.body)
    return ch


def t_comp_to_loop(fn) -> bool:
    """xs = [f(a) for a in it if c]  ->  xs = []; for a_lv in it: if c: append."""
    if _nested_scope(fn):
        return False
    ch = False
    counter = [0]

    def walk(stmts):
        nonlocal ch
        out = []
        for st in stmts:
            for f in ("body", "orelse", "finalbody"):
                sub = getattr(st, f, None)
                if isinstance(sub, list) and sub and isinstance(
                        sub[0], ast.stmt):
                    setattr(st, f, walk(sub))
            for h in getattr(st, "handlers", []) or []:
                h.body = walk(h.body)
            v = getattr(st, "value", None)
            if isinstance(st, ast.Assign) and len(st.targets) == 1 and \
                    isinstance(st.targets[0], ast.Name) and isinstance(
                    v, (ast.ListComp, ast.SetComp, ast.DictComp)) and len(
                    v.generators) == 1 and not v.generators[0].is_async and \
                    not any(isinstance(x, ast.Name) and x.id == st.targets[0].id
                            for x in ast.walk(v)) and not any(
                    isinstance(x, (ast.ListComp, ast.SetComp, ast.DictComp,
                                   ast.GeneratorExp, ast.Lambda, ast.NamedExpr))
                    for x in ast.walk(v) if x is not v):
                g = v.generators[0]
                counter[0] += 1
                table = {}
                for n in ast.walk(g.target):
                    if isinstance(n, ast.Name):
                        table[n.id] = f"{n.id}_lv{counter[0]}"
                for n in ast.walk(v):
                    if isinstance(n, ast.Name) and n.id in table:
                        n.id = table[n.id]
                name = st.targets[0].id
                if isinstance(v, ast.ListComp):
                    init = ast.List([], ast.Load())
                    add = ast.Expr(ast.Call(ast.Attribute(
                        ast.Name(name, ast.Load()), "append", ast.Load()),
                        [v.elt], []))
                elif isinstance(v, ast.SetComp):
                    init = ast.Call(ast.Name("set", ast.Load()), [], [])
                    add = ast.Expr(ast.Call(ast.Attribute(
                        ast.Name(name, ast.Load()), "add", ast.Load()),
                        [v.elt], []))
                else:
                    init = ast.Dict([], [])
                    add = ast.Assign([ast.Subscript(
                        ast.Name(name, ast.Load()), v.key, ast.Store())],
                        v.value)
                body = [add]
                for c in reversed(g.ifs):
                    body = [ast.If(c, body, [])]
                out.append(ast.Assign([ast.Name(name, ast.Store())], init))
                out.append(ast.For(g.target, g.iter, body, []))
                ch = True
                continue
            out.append(st)
        return out

    fn.body = walk(fn.body)
    return ch


def t_classref(fn) -> bool:
    """self.__class__ <-> type(self)."""
    ch = False

    class T(ast.NodeTransformer):
        def visit_Attribute(self, n):
            nonlocal ch
            self.generic_visit(n)
            if n.attr == "__class__" and isinstance(n.value, ast.Name) and \
                    isinstance(n.ctx, ast.Load):
                ch = True
                return ast.Call(ast.Name("type", ast.Load()), [n.value], [])
            return n

        def visit_Call(self, n):
            nonlocal ch
            if isinstance(n.func, ast.Name) and n.func.id == "type" and len(
                    n.args) == 1 and isinstance(n.args[0], ast.Name) and \
                    not n.keywords:
                ch = True
                return ast.Attribute(n.args[0], "__class__", ast.Load())
            self.generic_visit(n)
            return n

    T().visit(fn)
    return ch


def t_swap_independent(fn) -> bool:
    """two adjacent assignments `a = <pure>; b = <pure>` that do not mention
    each other's names are exchanged."""
    ch = False

    def pure(e):
        return not any(isinstance(x, (ast.Call, ast.Subscript, ast.Attribute,
                                      ast.NamedExpr, ast.Yield, ast.Await,
                                      ast.ListComp, ast.SetComp, ast.DictComp,
                                      ast.GeneratorExp))
                       for x in ast.walk(e))

    def walk(stmts):
        nonlocal ch
        for st in stmts:
            for f in ("body", "orelse", "finalbody"):
                sub = getattr(st, f, None)
                if isinstance(sub, list) and sub and isinstance(
                        sub[0], ast.stmt):
                    walk(sub)
        i = 0
        while i + 1 < len(stmts):
            a, b = stmts[i], stmts[i + 1]
            if all(isinstance(x, ast.Assign) and len(x.targets) == 1
                   and isinstance(x.targets[0], ast.Name) and pure(x.value)
                   for x in (a, b)):
                na = {n.id for n in ast.walk(a) if isinstance(n, ast.Name)}
                nb = {n.id for n in ast.walk(b) if isinstance(n, ast.Name)}
                if a.targets[0].id not in nb and b.targets[0].id not in na:
                    stmts[i], stmts[i + 1] = b, a
                    ch = True
                    i += 2
                    continue
            i += 1

    walk(fn.body)
    return ch


def t_walrus_out(fn) -> bool:
    """if (x := e) ...:  ->  x = e; if x ...:   (walrus leading the test)."""
    ch = False

    def first_walrus(test):
        # the walrus must be the first thing evaluated in the test
        e = test
        while True:
            if isinstance(e, ast.NamedExpr):
                return e
            if isinstance(e, ast.Compare):
                e = e.left
            elif isinstance(e, ast.BoolOp):
                e = e.values[0]
            elif isinstance(e, ast.UnaryOp):
                e = e.operand
            else:
                return None

    def walk(stmts):
        nonlocal ch
        out = []
        for st in stmts:
            for f in ("body", "orelse", "finalbody"):
                sub = getattr(st, f, None)
                if isinstance(sub, list) and sub and isinstance(
                        sub[0], ast.stmt):
                    setattr(st, f, walk(sub))
            if isinstance(st, ast.If):
                w = first_walrus(st.test)
                if w is not None and isinstance(w.target, ast.Name):
                    out.append(ast.Assign([ast.Name(w.target.id, ast.Store())],
                                          w.value))

                    class T(ast.NodeTransformer):
                        def visit_NamedExpr(self, n):
                            if n is w:
                                return ast.Name(w.target.id, ast.Load())
                            self.generic_visit(n)
                            return n
                    st.test = T().visit(st.test)
                    ch = True
            out.append(st)
        return out

    fn.body = walk(fn.body)
    return ch


_SIGS = None


def _signatures():
    """callable name -> positional parameter names (without self/cls), for
    names whose definitions in the package all agree."""
    global _SIGS
    if _SIGS is None:
        prog = Program(normalise=False)
        table: dict[str, set[tuple]] = {}
        for fi in prog.functions.values():
            a = fi.node.args
            if a.vararg or a.kwarg or a.posonlyargs:
                params = None
            else:
                params = tuple(x.arg for x in a.args)
                if fi.cls is not None and not fi.is_staticmethod():
                    params = params[1:]
            table.setdefault(fi.name, set()).add(params)
        _SIGS = {k: next(iter(v)) for k, v in table.items()
                 if len(v) == 1 and next(iter(v)) is not None
                 and not k.startswith("__")}
    return _SIGS


def t_kw2pos(fn) -> bool:
    """f(a, key=b) -> f(a, b) when `key` is the next positional parameter."""
    sigs = _signatures()
    ch = False
    for n in ast.walk(fn):
        if not isinstance(n, ast.Call):
            continue
        name = n.func.id if isinstance(n.func, ast.Name) else (
            n.func.attr if isinstance(n.func, ast.Attribute) else None)
        if name not in sigs or any(isinstance(a, ast.Starred) for a in n.args) \
                or any(k.arg is None for k in n.keywords):
            continue
        params = sigs[name]
        while n.keywords and len(n.args) < len(params) and \
                n.keywords[0].arg == params[len(n.args)]:
            n.args.append(n.keywords.pop(0).value)
            ch = True
    return ch


def t_pos2kw(fn) -> bool:
    """f(a, b) -> f(a, second=b): positional arguments after the first are
    passed by keyword."""
    sigs = _signatures()
    ch = False
    for n in ast.walk(fn):
        if not isinstance(n, ast.Call):
            continue
        name = n.func.id if isinstance(n.func, ast.Name) else (
            n.func.attr if isinstance(n.func, ast.Attribute) else None)
        if name not in sigs or any(isinstance(a, ast.Starred) for a in n.args) \
                or any(k.arg is None for k in n.keywords):
            continue
        params = sigs[name]
        if len(n.args) < 2 or len(n.args) > len(params):
            continue
        extra = n.args[1:]
        n.args = n.args[:1]
        n.keywords = [ast.keyword(params[i + 1], v)
                      for i, v in enumerate(extra)] + n.keywords
        ch = True
    return ch


def t_extract_arg(fn) -> bool:
    """x = f(g(y), ...) -> arg_tmp = g(y); x = f(arg_tmp, ...)."""
    if any(isinstance(n, (ast.Yield, ast.YieldFrom)) for n in ast.walk(fn)):
        pass
    ch = False
    k = [0]

    def walk(stmts):
        nonlocal ch
        out = []
        for st in stmts:
            for f in ("body", "orelse", "finalbody"):
                sub = getattr(st, f, None)
                if isinstance(sub, list) and sub and isinstance(
                        sub[0], ast.stmt):
                    setattr(st, f, walk(sub))
            for h in getattr(st, "handlers", []) or []:
                h.body = walk(h.body)
            v = getattr(st, "value", None)
            if isinstance(st, (ast.Assign, ast.Return, ast.Expr)) and \
                    isinstance(v, ast.Call) and v.args and isinstance(
                    v.args[0], ast.Call) and isinstance(
                    v.func, (ast.Name, ast.Attribute)) and not isinstance(
                    v.args[0].func, ast.Lambda):
                k[0] += 1
                name = f"arg_tmp{k[0]}"
                out.append(ast.Assign([ast.Name(name, ast.Store())],
                                      v.args[0]))
                v.args[0] = ast.Name(name, ast.Load())
                ch = True
            out.append(st)
        return out

    fn.body = walk(fn.body)
    return ch


TRANSFORMS = {
    "format": t_format,
    "rename": t_rename,
    "swapeq": t_swapeq,
    "invertif": t_invert_if,
    "rettemp": t_ret_temp,
    "in2or": t_in_to_or,
    "nestif": t_elif_nest,
    "splittuple": t_augassign,
    "elseafter": t_else_after_exit,
    "dedentelse": t_dedent_else,
    "comp2loop": t_comp_to_loop,
    "classref": t_classref,
    "swapindep": t_swap_independent,
    "walrusout": t_walrus_out,
    "kw2pos": t_kw2pos,
    "pos2kw": t_pos2kw,
    "extractarg": t_extract_arg,
}


# ---------------------------------------------------------------------- driver
def variants(transforms, granularity):
    pkg = REPO / PKG_REL
    for path in sorted(pkg.rglob("*.py")):
        rel = str(path.relative_to(REPO))
        src = path.read_text()
        for tname in transforms:
            tf = TRANSFORMS[tname]
            if granularity == "file" or tname == "format":
                tree = ast.parse(src)
                ch = False
                for fn in list(_funcs(tree)):
                    ch |= bool(tf(fn))
                if ch:
                    ast.fix_missing_locations(tree)
                    try:
                        new = ast.unparse(tree)
                        compile(new, rel, "exec")
                    except Exception:
                        continue
                    yield (tname, rel, "*", new)
            else:
                tree0 = ast.parse(src)
                names = [(fn.name, fn.lineno) for fn in _funcs(tree0)]
                for name, lineno in names:
                    tree = ast.parse(src)
                    fn = next(f for f in _funcs(tree)
                              if f.name == name and f.lineno == lineno)
                    if tf(fn):
                        ast.fix_missing_locations(tree)
                        try:
                            new = ast.unparse(tree)
                            compile(new, rel, "exec")
                        except Exception:
                            continue
                        yield (tname, rel, f"{name}@{lineno}", new)


_BASE = {}


def _base(prop):
    if prop not in _BASE:
        from sa.main import run_property
        res = run_property(prop, "quick", Program())
        _BASE[prop] = ({f.ident() for f in res.findings}, list(res.errors))
    return _BASE[prop]


def run_one(job):
    tname, rel, where, src, props = job
    from sa.main import run_property
    out = []
    for prop in props:
        base_ids, base_errs = _base(prop)
        try:
            prog = Program(overrides={rel: src})
            res = run_property(prop, "quick", prog)
        except Exception as e:
            out.append((prop, "crash", repr(e)[:200]))
            continue
        new = [f for f in res.findings if f.ident() not in base_ids]
        errs = [e for e in res.errors if e not in base_errs]
        if new:
            out.append((prop, "FALSE-ALARM",
                        f"[{new[0].rule}] {new[0].msg[:220]}"))
        elif errs:
            out.append((prop, "analysis-error", errs[0][:220]))
    return tname, rel, where, out


def main():
    ap = argparse.ArgumentParser()
    ap.add_argument("--props", default=",".join(PROPS))
    ap.add_argument("--transforms", default=",".join(TRANSFORMS))
    ap.add_argument("--granularity", default="function")
    ap.add_argument("--jobs", type=int, default=16)
    ap.add_argument("--out", default="/tmp/metamorph.json")
    args = ap.parse_args()
    props = args.props.split(",")
    jobs = [(t, rel, where, src, props) for t, rel, where, src in variants(
        args.transforms.split(","), args.granularity)]
    print(f"{len(jobs)} rewrites x {len(props)} checks")
    fa = ae = 0
    rows = []
    with ProcessPoolExecutor(max_workers=args.jobs) as ex:
        for tname, rel, where, out in ex.map(run_one, jobs, chunksize=2):
            for prop, verdict, detail in out:
                rows.append({"transform": tname, "file": rel, "function": where,
                             "property": prop, "verdict": verdict,
                             "detail": detail})
                if verdict == "FALSE-ALARM":
                    fa += 1
                    print(f"FALSE-ALARM {prop} {tname} {rel}:{where}: {detail}")
                elif verdict == "crash":
                    fa += 1
                    print(f"CRASH {prop} {tname} {rel}:{where}: {detail}")
                else:
                    ae += 1
    json.dump(rows, open(args.out, "w"), indent=1)
    print(f"rewrites={len(jobs)} false-alarm verdicts={fa} "
          f"analysis-error verdicts={ae}  -> {args.out}")


if __name__ == "__main__":
    main()
