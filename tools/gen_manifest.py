#!/usr/bin/env python3
"""Regenerates /verif/MANIFEST.json from the per-property table below."""
import json
import os
from pathlib import Path

VERIF = Path(__file__).resolve().parent.parent

BASELINE = ("cd /repo && /venv/bin/python -m pytest -ra -q -p no:cacheprovider "
            "--timeout=900 --continue-on-collection-errors")

# id -> (technique, level text, level note (= what is NOT decided / trusted), design ref)
CHECKS = {
    "C04": (
        "table theorems over literal permutation tables (exhaustive) + "
        "constant-folded decision table of __eq__/__hash__/invert",
        "Exhaustive static proof on the finite tables: every PERMUTATION_GROUP "
        "is read from the source and shown to be exactly the proper rotation "
        "group of the idealised figure (exact arithmetic), `inversion` an "
        "improper operation normalising it; all 16 parity cells of __eq__ and "
        "the 4 of __hash__/invert are enumerated and each reachable exit must "
        "have the orbit-membership form. Together these give the stated "
        "equivalence/hash/invert laws provided the comparison inside the "
        "recognised form is what it says.",
        "Trusted: the position->vertex meaning of each class (docstrings), "
        "Python's ==/in/any/frozenset. Not decided: runtime enumeration of all "
        "720 x parity pairs (another family).",
        "DESIGN.md 3/C04"),
    "C09": (
        "effect analysis by abstract interpretation of every reader x class "
        "+ paired-update / purge / key-centre rules on the mutators",
        "Induction over mutators, decided statically: every public reader "
        "(and everything it reaches in algorithms/, converters, JSON export) "
        "has an empty write effect on its input graphs incl. auto-vivifying "
        "lookups; no slot is ever an auto-creating container; add/remove "
        "atom/bond perform the paired updates that keep the three parallel "
        "containers in step; remove_atom resolved for each class purges "
        "every descriptor-bearing slot under `atom in descriptor.atoms`; "
        "descriptors are stored under their own centre.",
        "Not decided: agreement of values with a reference model after a "
        "history (another family). Trusted: transfer functions of "
        "sa/absint.py, frozen mutator list.",
        "DESIGN.md 3/C09"),
    "C10": (
        "ownership / freshness abstract interpretation over all derivation "
        "operations x receiver class x argument class",
        "Static proof under the stated abstraction: for 64 (operation, class, "
        "argument class) instances every slot of the derived graph is fresh "
        "down to the depth of its declared container type (290 slot "
        "obligations), and no operation returns its input.",
        "Attribute values are opaque (API-level edits only). Trusted: "
        "transfer functions of sa/absint.py (deepcopy, comprehension, "
        "dict()/set()/.copy(), **kwargs, update, subscript store).",
        "DESIGN.md 3/C10"),
    "C19": (
        "path-ordered effect analysis with validation facts "
        "(validate-before-write) + guard table per mutator",
        "For every mutator x receiver class (50 instances, super()/self calls "
        "inlined through the MRO): no node that may raise executes after a "
        "write to the graph on any path, and every normal exit has validated "
        "the atoms / bond / centre / element / label the request names "
        "(66 guard obligations).",
        "Exception types are not decided; type errors of arguments are out "
        "of scope. Trusted: fact rules of sa/effects.py and invariants I1/I2 "
        "(C09).",
        "DESIGN.md 3/C19"),
}

NOT_APPLICABLE = {
    "C14": "agreement of two sign conventions defined by RDKit's C++ semantics "
           "(chiral tags, _chiralPermutation from 3D, embedding) and by "
           "floating-point geometry; no clause is visible in this repository's "
           "code shape, and a frozen expected sign would be a source-fragment "
           "match, not an analysis",
}

PENDING_REASON = ("static check not registered at this commit (under "
                  "construction; see DESIGN.md section 3 for the planned rules)")


def main():
    props = [json.loads(l)["id"] for l in open(VERIF / "properties.jsonl")]
    checks = []
    for pid in props:
        if pid not in CHECKS:
            continue
        tech, text, note, ref = CHECKS[pid]
        checks.append({
            "property_id": pid,
            "quick_cmd": f"./check {pid} --tier quick",
            "thorough_cmd": f"./check {pid} --tier thorough",
            "evidence_file": f"/verif/evidence/{pid}.json",
            "replay_cmd_template": f"./check {pid} --replay {{path}}",
            "engine": "sa",
            "level_claimed": {"category": "other", "text": text,
                              "design_ref": ref},
            "level_note": note,
            "technique": "static analysis: " + tech,
        })
    na = []
    for pid in props:
        if pid in CHECKS:
            continue
        na.append({"property_id": pid,
                   "reason": NOT_APPLICABLE.get(pid, PENDING_REASON)})
    manifest = {
        "version": 1,
        "setup_cmd": "true",
        "hooks": {
            "guard": "STEREOMOLGRAPH_VERIF",
            "enable": "no hooks: the checks parse /repo's sources and never "
                      "import or run them",
            "baseline_off_cmd": BASELINE,
            "source_commits": [],
            "add_only": True,
        },
        "engines": [{
            "name": "sa",
            "path": "/verif/sa",
            "serves_properties": sorted(CHECKS),
            "kind_free_text": "repository-specific static analysis over "
                              "Python ast (stdlib only): class table with C3 "
                              "MRO, class-context call resolution, abstract "
                              "interpreters (ownership, effects, identifier "
                              "kinds, geometric kinds), literal table "
                              "theorems, finite decision tables",
        }],
        "checks": checks,
        "not_applicable": na,
        "notes": "All checks are static (family: static analysis). exit 0 = "
                 "all obligations discharged; exit 1 + VIOLATION line = a "
                 "construct breaks a rule; exit 2 + ANALYSIS-ERROR = anchor "
                 "vanished or idiom not analysable (never a silent pass). "
                 "Known findings: /verif/known_findings.json.",
    }
    (VERIF / "MANIFEST.json").write_text(json.dumps(manifest, indent=1) + "\n")
    print(f"MANIFEST.json: {len(checks)} checks, {len(na)} not_applicable")


if __name__ == "__main__":
    main()
