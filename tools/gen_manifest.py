#!/usr/bin/env python3
"""Regenerates /verif/MANIFEST.json from the per-property table below."""
import json
import os
from pathlib import Path

VERIF = Path(__file__).resolve().parent.parent

BASELINE = ("cd /repo && /venv/bin/python -m pytest -ra -q -p no:cacheprovider "
            "--timeout=900 --continue-on-collection-errors")

# id -> (technique, level text, level note (= what is NOT decided / trusted), design ref)
CHECKS = {
    "C04": (
        "table theorems over literal permutation tables (exhaustive) + "
        "constant-folded decision table of __eq__/__hash__/invert",
        "Exhaustive static proof on the finite tables: every PERMUTATION_GROUP "
        "is read from the source and shown to be exactly the proper rotation "
        "group of the idealised figure (exact arithmetic), `inversion` an "
        "improper operation normalising it; all 16 parity cells of __eq__ and "
        "the 4 of __hash__/invert are enumerated and each reachable exit must "
        "have the orbit-membership form; operands of different descriptor "
        "classes are rejected before the table comparison. Together these "
        "give the stated equivalence/hash/invert laws provided the comparison "
        "inside the recognised form is what it says.",
        "Trusted: the position->vertex meaning of each class (docstrings), "
        "Python's ==/in/any/frozenset. Not decided: runtime enumeration of all "
        "720 x parity pairs (another family).",
        "DESIGN.md 3/C04"),
    "C01": (
        "side-kind inference + mirrored-statement cross-check on VF2++, "
        "symmetric-call / label-flow rules on __eq__, empty-graph guards, "
        "orbit tables (C04), aggregation-order rules (C03)",
        "Static necessary conditions of 'never misses': every index / "
        "membership / update site of the nine full-graph VF2++ functions "
        "uses an atom of the right graph; the two graphs are handled by "
        "mirrored statements; the four __eq__ call the search symmetrically "
        "with their own refinement labels and guard empty graphs; descriptor "
        "equality is orbit membership over proven rotation groups; colours "
        "are aggregated order-free; relabel_atoms rebuilds every container."
        " relabel_atoms renames every identifier of the result totally "
        "(R-RENAME-ALL / R-RENAME-TOTAL); memoised graph state is reset by "
        "every identity-relevant edit (R-MEMO-INVALIDATE) and run-time caches "
        "reachable from the anchors are keyed completely (R-CACHE-KEY).",
        "Not decided: that the search finds an isomorphism whenever one "
        "exists. Trusted: side seeds (record field names, (u, v, state, "
        "params) protocol).",
        "DESIGN.md 3/C01"),
    "C02": (
        "class-guard symmetry, own-colour dependency, label flow, "
        "candidate-filter polarity, placeholder-aware stereo predicates, "
        "bond-role predicate shape, paired search state",
        "Static necessary conditions of 'never lies': symmetric class guard "
        "in all four __eq__; the Morgan update depends on the atom's own "
        "colour; labels come from the class's refiner seeded with atom_type; "
        "candidates are intersections over all covered neighbours with "
        "correct polarity; stereo / stereo-change / bond-role predicates "
        "compare the mapped items of u with those of v and are registered "
        "for the right flags; the descriptor symmetry tables are the proper "
        "rotation groups (table theorems of C04)."
        " Coverage filters of the stereo predicates admit the None "
        "placeholder in every spelling (list and set forms); memoised colours "
        "/ hashes are reset by every identity-relevant edit "
        "(R-MEMO-INVALIDATE), so a != mutate(a) is not defeated by a stale "
        "memo.",
        "Not decided: soundness of the pruning as an algorithm; brute-force "
        "agreement on small graphs is another family.",
        "DESIGN.md 3/C02"),
    "C03": (
        "aggregation-order analysis by axis provenance (def-use), call-graph "
        "purity below __hash__, descriptor hash form (C04)",
        "Every colour aggregation call site is classified by the provenance "
        "of its last axis and must use the multiset hash on unordered axes "
        "and the tuple hash on ordered ones; identifiers never enter hashed "
        "data; parity -1 is normalised in both descriptor loops; the stop "
        "criterion is renaming-invariant; nothing below __hash__ uses "
        "process-salted hashing; descriptor __hash__ has the orbit form.",
        "Not decided: equality => equal hash as a behaviour; sampled "
        "PYTHONHASHSEED runs (another family). Trusted: provenance "
        "classification table in sa/hashrules.py.",
        "DESIGN.md 3/C03"),
    "C05": (
        "path rules on the explicit-stack search loop, freshness of yields "
        "and candidate sets, side kinds, mirror cross-check, label types",
        "All satisfiable paths through the search loop (guards as "
        "propositional formulas) take exactly one of {undo pair, yield + undo "
        "pair, update_state + push}, the first only when feasibility() is "
        "false, the others only when it holds for the inserted pair; an "
        "empty matching order yields the empty mapping; mapping and "
        "inverted_mapping are mutated in mirrored adjacent pairs; yields "
        "and candidate sets are fresh; candidate filters have the right "
        "polarity and cover all covered neighbours; every call site passes "
        "label dictionaries; when a pair is undone the removed atom is put "
        "back into frontier / external on every path (R-REVERT-TOTAL).",
        "Not decided: exactness of the enumeration (no missing / duplicate "
        "mapping) as an algorithmic fact; group closure of the result.",
        "DESIGN.md 3/C05"),
    "C06": (
        "slot-coverage analysis of the resolved enantiomer() chain + "
        "invert()/inversion table obligations + effect analysis",
        "For both stereo classes every descriptor-bearing slot (incl. all "
        "three roles of both change dictionaries) receives invert()-ed "
        "values read from the same slot of self, nothing else is written to "
        "the copy, self is not written; invert() negates the parity for "
        "chiral classes and returns self otherwise; inversion tables are "
        "improper operations; the change setters (which replace a centre's "
        "whole entry) are never called once per role inside a loop over one "
        "change dictionary (R-SETTER-ONCE); a guarded early return in "
        "front of the inversion reads, per class, every slot the skipped "
        "inversion writes (R-ENANT-FASTPATH).",
        "Not decided: g == g.enantiomer() exactly for achiral / meso "
        "structures (needs search completeness).",
        "DESIGN.md 3/C06"),
    "C11": (
        "identifier-flow typing of the relabel_atoms chain + slot coverage "
        "and in-place contract by abstract interpretation",
        "Every atom identifier drawn from self's containers passes through "
        "the total renaming mapping.get(x, x); every slot is rebuilt from "
        "the same slot of self with containers of the declared class; "
        "copy=False returns self and rebinds every slot, copy=True returns "
        "a new object and leaves self untouched.",
        "Not decided: that the inverse mapping restores the graph as a "
        "value (follows from the uniform renaming for injective maps).",
        "DESIGN.md 3/C11"),
    "C16": (
        "own-colour dependency, ordered role axis, parity normalisation, "
        "first-trip def-use of the bond-stereo contribution",
        "Necessary conditions of separation checked on the generators: own "
        "colour enters every update; the (reactant, product, TS) axis is "
        "hashed in order; parity -1 is normalised; the bond-stereo "
        "contribution must be computed from real colours on the first trip "
        "(violated today: known finding F13, E/Z hash collision); every "
        "return of the four hash functions hashes the refined colours; a "
        "memoised hash / colouring is reset by every identity-relevant edit "
        "(R-MEMO-INVALIDATE, typestate over all functions that modify a "
        "graph container).",
        "Not decided: collision-freeness as such.",
        "DESIGN.md 3/C16"),
    "C17": (
        "one-shot typestate of Iterable parameters, slot coverage of "
        "subgraph/compose chains, filter-shape rules, component-search shape",
        "Iterable parameters are consumed once on every path; every slot of "
        "every class is filled from the same slot of the source; bonds / "
        "neighbours / descriptors / changes are kept under universal "
        "membership with None-aware tests; compose merges neighbour sets and "
        "lets the later graph win in every table (R-COMPOSE-ORDER: forward "
        "loop stores; ChainMap / setdefault / not-in guards / reversed "
        "iteration each flip the winner); the component search has the "
        "work-list shape.",
        "Not decided: maximality of components; value equality of the "
        "recomposed graph.",
        "DESIGN.md 3/C17"),
    "C07": (
        "geometric-kind abstract interpretation (point / vector / "
        "pseudo-vector / scalar / pseudo-scalar) + position-vs-identifier "
        "rule + symmetry rule",
        "For the five geometric primitives and the five perception functions: "
        "coordinates are used only through differences of rows, every "
        "decision is a scalar, every chiral parity a pseudo-scalar, achiral "
        "descriptors get the literal 0, descriptor atoms are identifiers. In "
        "exact arithmetic off the thresholds this proves translation / "
        "rotation invariance and reflection = enantiomer for an unchanged "
        "atom order. Known finding: are_planar is not symmetric in its "
        "points (F17). The square-planar ring-order table contains all three "
        "trans pairings; no perception function stores on its arguments or "
        "is memoised; the order of a descriptor's atom tuple never comes "
        "from iterating a set (R-SET-ORDER).",
        "Not decided: invariance under reordering of the input atoms beyond "
        "these table / symmetry rules, thresholds and ties, axial heuristics, "
        "sign conventions.",
        "DESIGN.md 3/C07"),
    "C08": (
        "finite decision tables extracted from the AST and enumerated by "
        "constant folding (bond membership 2x2, 4 roles, 64 atom + 25 bond "
        "descriptor scenarios), exit-before-loop rule on reverse_reaction",
        "Exhaustive over the finite tables: from_graphs classifies bonds by "
        "membership; reactant()/product()/_ts() keep the right roles "
        "(following helper delegation); reverse_reaction swaps FORMED/BROKEN "
        "through set_bond_attribute for bonds and inside both change "
        "dictionaries and has no exit that skips a swap loop unless the "
        "skipped tables are empty (R-REVERSE-TOTAL), passes every stored role to "
        "the keyword of the opposite side (table driven spreads are folded) "
        "and has no write effect on the graph it is called on (R-DERIVE-PURE, "
        "ownership interpreter); for all 89 (reactant, "
        "product, TS, bond role) descriptor scenarios overlay(static, "
        "broken) = reactant and overlay(static, formed) = product; no "
        "comparison of atom collections is the verdict 'same descriptor' "
        "except for an unspecified parity (R-DESC-CMP).",
        "Not decided: set equalities as values; reversing twice identical as "
        "a behaviour.",
        "DESIGN.md 3/C08"),
    "C12": (
        "constant folding over index tuples of the importer + orbit "
        "computations on the literal tables; identifier-kind rule",
        "Exhaustive on the tables as the importer uses them: SP / TB / OH "
        "labels are transversals (3, 20, 30 pairwise unequal descriptors = "
        "n!/|G|), CW/CCW map to opposite parities, E/Z to unequal orderings; "
        "all 13 descriptor constructions and all atoms/bonds use "
        "id_atom_map; no comparison or membership test relates an RDKit index "
        "to an identifier (R-IDX-ID-MIX, flow-aware kind inference over 36 "
        "sites) and neither is used as a truth value; the ring-cis inference "
        "examines the smallest ring containing the bond (R-RING-CHOICE, the "
        "code's own sort key folded over a 6- and an 8-ring record; defect "
        "F43 repaired by fix b7bef9c).",
        "Not decided: invariance under RDKit renumbering / SMILES spelling "
        "(RDKit's neighbour order and tag semantics).",
        "DESIGN.md 3/C12"),
    "C13": (
        "table-level round trip: exporter label choice and importer reading "
        "folded from the source and composed for every neighbour order and "
        "parity",
        "Exhaustive at table level (24 SP + 240 TB + 48 + 48 tetrahedral + "
        "2 OH cells): the re-imported descriptor equals the exported one "
        "under the literal permutation groups; labels are chosen by "
        "descriptor equality; the E/Z branch is folded for both orientations "
        "of the RDKit bond and 8 placeholder patterns and composed with the "
        "importer's reconstruction; a label the exporter writes only for a "
        "specified parity is optional in the importer; export has no write "
        "effect on the graph; set_bond_orders indexes dictionaries by the "
        "right kind; a label decision taken by orbit membership also reads "
        "the descriptor's parity (R-PARITY-USED); every assignment of the "
        "permutation label (fast paths too) is a candidate of the round "
        "trip; the neighbour tuples the tags are computed against are read "
        "off GetNeighbors() of the RDKit atom (R-RDKIT-ORDER). Known finding F42: identifier 0 is written as atom-map "
        "number 0, which the map-number import rejects.",
        "Trusted: RDKit keeps bond-insertion neighbour order and carries "
        "tags / labels / atom-map numbers, and keeps E/Z stereo of a double "
        "bond. Not decided: RDKit's own semantics, bond-order regeneration "
        "as a chemical algorithm.",
        "DESIGN.md 3/C13"),
    "C15": (
        "writer/reader schema agreement (sections per class guard, enum "
        "exhaustiveness, registries, payload form)",
        "Structural and complete for the schema: 9 sections agree under "
        "their guards, every Change member has a written and read bond "
        "section excluded from the plain one, role names agree, both "
        "registries are complete, the payload carries (class, atoms, parity) "
        "and is restored None-preservingly; every restored descriptor is "
        "attached unconditionally.",
        "Trusted: json round-trips lists, ints, None and strings.",
        "DESIGN.md 3/C15"),
    "C18": (
        "who-writes / pairing analysis of bond_orders.py + dictionary-kind "
        "rule in set_bond_orders",
        "The only matrix element stores are adjacent symmetric += 1 pairs "
        "over pairs selected under AC[i, j] == 1; matrices are copies of AC; "
        "returned matrices are AC / BO / best_BO: by induction symmetric, "
        "integer, >= AC, positive exactly on bonded pairs; the connectivity "
        "matrix handed in is numbered by the atoms view; in set_bond_orders "
        "every dictionary is indexed with its own key kind and the matrix "
        "with matrix positions (kinds followed through locals).",
        "The chemical part (octets, valences, order independence) is an "
        "algorithmic search: not decided.",
        "DESIGN.md 3/C18"),
    "C20": (
        "writer/reader format agreement + shape rules for connectivity",
        "Header lines = skiprows; one >= 8-decimal format for x, y, z; "
        "comments disabled; at least 1-d result; strict upper triangle; "
        "symmetric cut-off table with a zero diagonal; strict <; 1.2 x sum "
        "of radii; complete radii table; distances from coordinate "
        "differences only; number text is never stripped with a character set "
        "containing '0' and '.'; the reader never uses str.splitlines(). The "
        "text written by xyz_str is evaluated as a "
        "template (header lines, one repeated atom line).",
        "Not decided: decimal round trip of floats; permutation "
        "equivariance as a value.",
        "DESIGN.md 3/C20"),
    "C09": (
        "effect analysis by abstract interpretation of every reader x class "
        "+ paired-update / purge / key-centre rules on the mutators",
        "Induction over mutators, decided statically: every public reader "
        "(and everything it reaches in algorithms/, converters, JSON export) "
        "has an empty write effect on its input graphs incl. auto-vivifying "
        "lookups; no slot is ever an auto-creating container; add/remove "
        "atom/bond perform the paired updates that keep the three parallel "
        "containers in step; remove_atom resolved for each class purges "
        "every descriptor-bearing slot under `atom in descriptor.atoms`, "
        "remove_bond purges every bond-keyed stereo slot (R-PURGE-BOND, "
        "defect F44 repaired by fix aebc8a9); "
        "descriptors are stored under their own centre; the lookup hooks of "
        "mapping subclasses never store; in-place relabelling renames "
        "totally (rules of C11).",
        "Not decided: agreement of values with a reference model after a "
        "history (another family). Trusted: transfer functions of "
        "sa/absint.py, frozen mutator list.",
        "DESIGN.md 3/C09"),
    "C10": (
        "ownership / freshness abstract interpretation over all derivation "
        "operations x receiver class x argument class",
        "Static proof under the stated abstraction: for 64 (operation, class, "
        "argument class) instances every slot of the derived graph is fresh "
        "down to the depth of its declared container type (290 slot "
        "obligations), and no operation returns its input.",
        "Attribute values are opaque (API-level edits only). Trusted: "
        "transfer functions of sa/absint.py (deepcopy, comprehension, "
        "dict()/set()/.copy(), **kwargs, update, subscript store).",
        "DESIGN.md 3/C10"),
    "C19": (
        "path-ordered effect analysis with validation facts "
        "(validate-before-write) + guard table per mutator",
        "For every mutator x receiver class (50 instances, super()/self calls "
        "inlined through the MRO): no node that may raise executes after a "
        "write to the graph on any path, and every normal exit has validated "
        "the atoms / bond / centre / element / label the request names "
        "(66 guard obligations).",
        "Exception types are not decided; type errors of arguments are out "
        "of scope. Trusted: fact rules of sa/effects.py and invariants I1/I2 "
        "(C09).",
        "DESIGN.md 3/C19"),
}

NOT_APPLICABLE = {
    "C14": "agreement of two sign conventions defined by RDKit's C++ semantics "
           "(chiral tags, _chiralPermutation from 3D, embedding) and by "
           "floating-point geometry; no clause is visible in this repository's "
           "code shape, and a frozen expected sign would be a source-fragment "
           "match, not an analysis",
}

PENDING_REASON = ("static check not registered at this commit (under "
                  "construction; see DESIGN.md section 3 for the planned rules)")


def main():
    props = [json.loads(l)["id"] for l in open(VERIF / "properties.jsonl")]
    checks = []
    for pid in props:
        if pid not in CHECKS:
            continue
        tech, text, note, ref = CHECKS[pid]
        checks.append({
            "property_id": pid,
            "quick_cmd": f"./check {pid} --tier quick",
            "thorough_cmd": f"./check {pid} --tier thorough",
            "evidence_file": f"/verif/evidence/{pid}.json",
            "replay_cmd_template": f"./check {pid} --replay {{path}}",
            "engine": "sa",
            "level_claimed": {"category": "other", "text": text,
                              "design_ref": ref},
            "level_note": note,
            "technique": "static analysis: " + tech,
        })
    na = []
    for pid in props:
        if pid in CHECKS:
            continue
        na.append({"property_id": pid,
                   "reason": NOT_APPLICABLE.get(pid, PENDING_REASON)})
    manifest = {
        "version": 1,
        "setup_cmd": "true",
        "hooks": {
            "guard": "STEREOMOLGRAPH_VERIF",
            "enable": "no hooks: the checks parse /repo's sources and never "
                      "import or run them",
            "baseline_off_cmd": BASELINE,
            "source_commits": [],
            "add_only": True,
        },
        "engines": [{
            "name": "sa",
            "path": "/verif/sa",
            "serves_properties": sorted(CHECKS),
            "kind_free_text": "repository-specific static analysis over "
                              "Python ast (stdlib only): class table with C3 "
                              "MRO, class-context call resolution, abstract "
                              "interpreters (ownership, effects, identifier "
                              "kinds, geometric kinds), literal table "
                              "theorems, finite decision tables",
        }],
        "checks": checks,
        "not_applicable": na,
        "notes": "All checks are static (family: static analysis). exit 0 = "
                 "all obligations discharged; exit 1 + VIOLATION line = a "
                 "construct breaks a rule; exit 2 + ANALYSIS-ERROR = anchor "
                 "vanished or idiom not analysable (never a silent pass). "
                 "Known findings: /verif/known_findings.json.",
    }
    (VERIF / "MANIFEST.json").write_text(json.dumps(manifest, indent=1) + "\n")
    print(f"MANIFEST.json: {len(checks)} checks, {len(na)} not_applicable")


if __name__ == "__main__":
    main()
