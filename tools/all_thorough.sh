#!/bin/bash
# runs the thorough tier (real tree + self-test over variants, seeds and
# benign refactors) of every registered check; prints the summary lines
cd /verif
props=$(python3 -c "import json;print(' '.join(c['property_id'] for c in json.load(open('/verif/MANIFEST.json'))['checks']))")
echo $props | tr ' ' '\n' | xargs -P 3 -I{} sh -c './check {} --tier thorough > /tmp/thorough_{}.log 2>&1; echo "{} exit=$?"' | sort
for p in $props; do grep -E "self-test|note: self-test|VIOLATION|ANALYSIS-ERROR" /tmp/thorough_$p.log | sed "s/^/$p /" | cut -c1-420; done
