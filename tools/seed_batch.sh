#!/bin/bash
# tools/seed_batch.sh <out log> <seed dir>...   (sequential full evaluations)
LOG=$1; shift
: > $LOG
for d in "$@"; do
  echo "######## $d" >> $LOG
  EXTRA_PROPS="${EXTRA_PROPS:-}" /verif/tools/seed_eval.sh $d >> $LOG 2>&1
done
echo DONE >> $LOG
