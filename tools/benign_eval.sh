#!/bin/bash
# tools/benign_eval.sh <dir with patch.diff>: runs every registered check against a
# scratch worktree with the (behaviour preserving) patch applied; any VIOLATION
# is a false alarm of the machinery, ANALYSIS-ERROR an unrecognised idiom.
D="$(cd "$1" && pwd)"; W=/tmp/benigneval_$$
git -C /repo worktree add -q --detach $W ${BASE:-HEAD} || exit 3
cd $W; if ! git apply $D/patch.diff; then echo "PATCH DOES NOT APPLY"; cd /; git -C /repo worktree remove --force $W; exit 4; fi
cd /verif
for p in $(python3 -c "import json;print(' '.join(c['property_id'] for c in json.load(open('/verif/MANIFEST.json'))['checks']))"); do
  out=$(VERIF_REPO=$W VERIF_NO_EVIDENCE=1 ./check $p 2>&1 | grep -v conda)
  n=$(echo "$out" | grep -c '^VIOLATION'); e=$(echo "$out" | grep -c '^ANALYSIS-ERROR')
  if [ "$n" != "0" ] || [ "$e" != "0" ]; then echo "$p violations=$n errors=$e"; echo "$out" | grep -E '^  src|^ANALYSIS-ERROR' | head -4 | cut -c1-260; fi
done
cd /; git -C /repo worktree remove --force $W
